#!/bin/bash
# tools/at_commit.sh <commit> <ID> <tier> : run a check against hslam/rpc at another commit (scratch worktree, removed afterwards)
c="$1"; id="$2"; tier="$3"
d=$(mktemp -d /tmp/vat.XXXXXX); rmdir "$d"
git -C /repo worktree add -q --detach "$d" "$c" || exit 3
cd /verif
stamp=$(mktemp /tmp/vstamp.XXXXXX)
cp -r evidence /tmp/vat-evidence.$$ 2>/dev/null
VERIF_REPO="$d" ./check "$id" "$tier" 2>&1 | tee "$stamp" | grep -v '^    ' | cut -c1-260 | tail -${LINES_OUT:-14}
rc=${PIPESTATUS[0]}
rm -rf evidence; mv /tmp/vat-evidence.$$ evidence 2>/dev/null
grep -ho 'replay=/verif/replays/[^ ]*' "$stamp" | sed 's/^replay=//' | sort -u | xargs -r rm -f
git -C /repo worktree remove --force "$d"
echo "at $c exit=$rc"
rm -f "$stamp"
