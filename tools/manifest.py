#!/usr/bin/env python3
"""Generate /verif/MANIFEST.json from the table below (python3 tools/manifest.py)."""
import json, os, subprocess
root = os.path.dirname(os.path.dirname(os.path.abspath(__file__)))

HOOK_COMMITS = ["888e8a9", "0547c9f"]

# id -> (category, level text, level_note, technique)
P = {
 "C07": ("exploration",
  "Generated header values (all varint widths and boundary lengths, random up to 3 MiB, generated scratch buffers) for all four encoders, judged by round-trip AND by an independent reference encoder/decoder in both directions, through the codecs directly and through a real Server and a real Conn; the 256 flag bytes and every boundary length +-1 are enumerated completely. Search cannot show absence for all inputs, but the input space is regular (length-prefixed fields) and every format boundary is covered exhaustively.",
  "Trusted: the reference codec (harness/kit/refcodec.go) as the statement of the documented formats; nil == empty for byte fields.",
  "property-based testing (rapid) with differential reference codec + exhaustive boundary enumeration; native go fuzz in thorough"),
 "C01": ("exploration",
  "Generated workloads over real Conn/Transport <-> real Server with self-describing payloads: every successful reply must equal the bijective transform of the caller's own arguments and the handler must have logged the caller's argument digest. The harness owns server completion order (gated handlers opened in a drawn permutation), stream fragmentation (byte link with 1..4096-byte reads), payload sizes up to 400 KB, server / client buffer sizes that are and are not pool size classes, and the server's context-buffer mode with handlers that release the buffer, across 4 header encoders and all IO modes. Exploration: schedules inside the library without an IO boundary are sampled, not enumerated.",
  "Trusted: harness links (frame link / in-memory byte link wrapped by the library's own framing), execution log. Fault-free runs only; failures are counted, hangs make the run undecided.",
  "property-based testing (rapid), model = bijective echo with unique payloads, harness-owned completion order and fragmentation"),
 "C02": ("exploration",
  "Generated histories over a real Conn whose socket.Messages is a gated frame link to a scripted peer: the harness decides when each request write succeeds or fails, when (duplicate / unsolicited) responses, peer EOF, read errors and local Close happen, so the racing events of the statement are placed deliberately (with direct IO the schedule is fully owned). Every receive on every Done channel is recorded with a deep copy of Error; oracle: exactly one signal per call, Error frozen, outcome justified by the history. Worker death (nil dereference of a recycled Call) is caught through the case journal and shrunk by the driver. A fifth of the cases are histories of Go / RoundTrip / blocking calls through a real Transport whose servers are killed and restarted (calls meet stale pooled connections): the Done channel carries the caller's own Call exactly once and its Error stays frozen.",
  "Trusted: frame link semantics (synchronous write errors, EOF after queued data); absence of a second signal is asserted after a 3-20 ms settle. NumCalls after the end of a connection is recorded, not asserted.",
  "model-based property testing (rapid operation lists) over a harness-owned gated link; driver-side delta debugging for crashes"),
 "C06": ("exploration",
  "Generated mixes of failing (handler error with drawn UTF-8 text up to 40 KB, unknown method, undecodable args, unencodable reply, unencodable request) and succeeding calls in flight together on a real Conn <-> real Server with a wire tap that decodes every response with the reference codec; then 10-60 later calls. Oracle: exactly the intended calls fail, text == text on the wire (== drawn text for handler errors) at return and again after later traffic, reply objects untouched, neighbours and later calls right, NumCalls()==0 after a client-side encode failure.",
  "Trusted: wire tap/reference decoder; a failing body codec stands for undecodable/unencodable values. Frame link only.",
  "property-based testing (rapid) with wire-tap differential oracle and deep-copied observations"),
 "C11": ("exploration",
  "Generated traffic (20-300 items, 1-4 workers) with the aliasing zero-copy body codec; every slice handed to user code (handler args, stream messages on both sides, replies, caller-supplied context buffers) is retained with its SHA-1 and re-hashed every 20 items and at the end; guard bytes beyond the reported length are checked. Sizes straddle every pool class with hot sizes so recycled buffers are really reused (a seeded aliasing mutant is caught within the quick budget).",
  "Trusted: natural reuse of the library's global pools (no poisoning hook). NoCopy off.",
  "property-based testing (rapid), retained-digest invariant over the history"),
 "C19": ("exploration",
  "Generated sets of calls on a real Conn to a scripted peer: the harness orders response-before-cancel, cancel/deadline, late response for the abandoned call, and final responses for live siblings; context buffers at capacity len-1/len/len+1 etc. Oracle: ctx error returned within 2 s when never answered, reply right when answered first, either when both; siblings complete exactly once with their own reply and are untouched by late responses; buffer used iff large enough, guard bytes intact.",
  "Trusted: frame link, scripted peer; 'promptly' = 2 s bound which must reproduce in isolation (rule T).",
  "property-based testing (rapid) with harness-owned response/cancel ordering"),
 "C04": ("exploration",
  "Generated request lists from a scripted client (reference encoder) to a real Server - all handler shapes, gated handlers, failing handlers, unknown methods, pings, stream open/data/close - released in drawn batches, optionally disconnecting after item j with requests queued and executing; plus call/kill/restart histories through a real Transport and Client; plus connection-churn histories over real unix sockets (poll-mode and plain servers; rounds of close-previous / silent visitor / burst of fresh connections each writing up to 250 requests) where every request must be answered and executed once and requests the server read off the socket but never executed are a timing-independent violation. Oracle from the handler execution log and the recorded response frames: executed exactly once when answered, at most once when sent, never for pings/unsent ids, argument digest equal, one response per sequence number; successful Transport/Client calls executed exactly once and no call twice.",
  "Trusted: execution log, scripted client, frame link batching (never reorders), TIOCOUTQ of the client socket. A quarter of the wire cases and all churn cases run over real unix sockets, half / three quarters of them against poll-mode servers.",
  "model-based property testing (rapid) with execution-log invariant; scripted peer over harness-owned link"),
 "C05": ("exploration",
  "Server side: scripted clients on 1-4 connections write 2-300 request frames released in drawn batches to a pipelining Server (direct/async IO); oracle: per connection the handler intervals (atomic tick counter) are disjoint and in send order, responses are in request order, and a connection blocked in a gated handler does not delay the others. Client side: one goroutine issues 2-300 Go calls (ok / handler error / unknown method / undecodable args / unencodable reply) on one shared Done channel over a pipelined real Conn; oracle: arrival order == issue order for every completion carried by a response.",
  "Trusted: tick counter, frame link. Pings and locally failing calls are outside the ordering oracle (scope note in DESIGN.md). A third of the server-side cases run over real unix sockets, half of them against poll-mode servers.",
  "property-based testing (rapid) with ordering invariants over execution log, wire order and Done arrival order"),
 "C08": ("fault_enumeration",
  "Enumeration per header encoder: hostile constants, every truncation and 14 (quick) / 255 (thorough) single-byte corruptions per position of 8 valid request frames against a real Server and of 4 valid response frames against a real Conn with pending calls and an open stream, all 256 upgrade bytes x method kinds x stream states, and a disconnect after every prefix of a 12-request burst in every non-poll mode (bursts also over unix sockets against poll-mode servers); client storms (1-12 callers issuing Go volleys, Call and stream traffic on a real Conn, optionally pipelined, while the peer disconnects; up to 60 connections per case); plus rapid-generated mutated/random frame sequences and random bursts. The worker process is the crash detector: the driver reads the case journal of a dead worker, confirms the case in a fresh process and shrinks it; in-process oracle: probes on the same (if it survived) and on another connection are answered correctly.",
  "Trusted: frame level only (length-prefix framing is the dependency hslam/socket). A hostile frame that decodes as a response for the later probe's own sequence number does not judge that probe.",
  "exhaustive fault enumeration + rapid-generated hostile sequences in crash-isolated worker processes; native go fuzz in thorough"),
 "C03": ("fault_enumeration",
  "The connection (real Conn <-> real Server over an in-memory byte link under the library's own framing) is cut at every byte offset of the recorded transcript of 3 fixed workloads x 4 header encoders, in both directions, as orderly close and as I/O error, and closed locally / by the server after every number of delivered responses; generated workloads add sizes, read chunks and drawn offsets. Oracle: nobody hangs (10 s), orderly end => ErrShutdown, later call => ErrShutdown within 2 s, successful calls carry their own reply, and every call whose response frame lies completely within the bytes the client had read succeeds (frame boundaries parsed from the transcript).",
  "Trusted: in-memory byte link (a cut severs both directions), transcript parser, reference decoder. For local Conn.Close the 'completely received' clause is not asserted.",
  "exhaustive crash-point enumeration over byte offsets + rapid-generated workloads, transcript-derived oracle"),
 "C09": ("exploration",
  "Generated multi-stream sessions (1-4 streams, handler behaviours echo / push-first / push-only / read-only, 0-30 messages each way up to 66 KB, interleaved unary calls and pings) over a frame link whose server-to-client direction is held and released immediately, as bursts right behind the open acknowledgement, or one frame at a time; a quarter of the cases run over real unix sockets instead, half of those against a poll-mode server. Oracle: per stream and direction the sequence read equals the sequence written; no empty, foreign, duplicate or extra message; unary replies are the caller's own.",
  "Trusted: frame link (never reorders), per-message identity (stream, direction, index). Loss = not arrived after 15 s, must reproduce in isolation.",
  "property-based testing (rapid) with harness-owned delivery schedule and sequence-equality oracle"),
 "C10": ("fault_enumeration",
  "Every event (client Stream.Close, Conn.Close, peer close, cut with EOF / I/O error, Server.Close) x link (frame link, byte link, real unix sockets without and with poll) x block pattern x direct IO x pipelining is enumerated on a fixed two-stream shape with a gated unary call, plus generated shapes, plus the event rawdrop (a scripted client writes the open frames of 1-3 streams behind an executing unary call and disconnects before any acknowledgement, 12 rounds per case). Oracle: blocked client reads and the server handlers' blocked reads return ErrStreamShutdown within 10 s, later operations on both ends return it within 2 s, handler exit is logged; after a single Stream.Close siblings still echo and the executing unary call completes with its own reply.",
  "Trusted: handler-side 'blocked in Read' marker; bounds 10 s / 2 s under rule T. Poll mode runs over real unix sockets in the per-run build directory.",
  "exhaustive event x mode enumeration + rapid-generated shapes, bounded-time unblocking oracle"),
 "C13": ("exploration",
  "Generated histories (calls of every form, bursts of concurrent callers, sleeps, CloseIdleConnections, kill/restart, long calls, streams) against a real Transport over a counting in-memory network with a 2 ms housekeeping tick; limits drawn incl. non-positive and idle > max. The invariant is evaluated inside the network's dial hook - the only moment the count can grow - and by a 50 us sampler: open client connections per address <= effective MaxConnsPerHost; from KeepAlive+3 ticks after the last use every open connection is idle and the count is sampled against the effective MaxIdleConnsPerHost.",
  "Trusted: counting network (dial +1, client close -1); verif hook only shortens the tick. The clamp of the idle limit is not separately observable (total <= max already bounds it).",
  "model-based property testing (rapid operation lists) with an invariant checked at every dial"),
 "C14": ("exploration",
  "Generated histories of a sequential synchronous caller through a real Transport to 2-4 servers with separate execution logs, kill/restart, call spacings drawn around KeepAlive and IdleConnTimeout, background async load. Oracle: calls execute only on the requested address's server; since a kill at most one ErrShutdown per connection pooled at the kill (a failed connection is never handed out again); ErrDial within 2 s while down; success after at most that many failures once the server is back, also checked by recovery probes after the history.",
  "Trusted: per-server execution logs, counting network. Recovery bound asserted for synchronous forms only.",
  "model-based property testing (rapid operation lists) with a per-address failure budget model"),
 "C15": ("exploration",
  "Generated histories with long (gated) calls and open echo streams spanning sleeps of 1-30 ticks and CloseIdleConnections, KeepAlive/IdleConnTimeout from 1 tick; hand-outs in which the harness obtains a pooled connection the way Transport.Call does (hook VerifGetConn), lets 0..KeepAlive+3 housekeeping ticks pass and then issues a long request on it. Oracle: every long call returns its own reply, every stream still echoes (busy connections are never closed by housekeeping); after the last use all connections are closed within KeepAlive+IdleConnTimeout+5 ticks; Transport.Close closes every pooled connection within 2 s and the housekeeping goroutine disappears (goroutine-profile diff).",
  "Trusted: counting network, goroutine probe (created-by frame in github.com/hslam). The window between getConn and call registration is owned through the hook VerifGetConn (the caller's two steps are replayed by the harness) and additionally sampled.",
  "model-based property testing (rapid operation lists), survival + bounded reclamation oracle"),
 "C16": ("exploration",
  "Generated Update / health histories racing 1-4 spinning callers through a real Client over a scripted fake RoundTripper, all three policies, Director none / empty / constant, per-address call latencies (so that LeastTime has a favourite), Updates drawn independently or derived from the current set (targets leave - optionally the fastest - or join). Every Update is stamped (t_call, t_return) and every routed call carries its start time. Oracle: address == Director's constant, or address in a target list that was current at some moment between the call's start and its arrival at the transport.",
  "Trusted: fake RoundTripper, wall-clock stamps (interval semantics make the oracle insensitive to scheduling delays). Detector probes (Ping) excluded.",
  "property-based testing (rapid) with interval-stamped routing oracle over a fake transport"),
 "C17": ("exploration",
  "Generated stable target sets (2-6, optionally listed with duplicates/empty strings), scripted latencies with step changes and outages, Alpha in {0,0.2,0.8,1}, Tick in {1 ns, 30 ms, 1 h}, sequential caller. Oracle: rotation windows of n distinct targets (RoundRobin; LeastTime when every call probes), Random within the list, and for LeastTime an interval-arithmetic model of the documented EWMA fed with durations measured in the fake transport: no call to a target whose estimate interval lies strictly above another's (Tick 1 h), probes at most one per Tick (30 ms) and, for designated probes (calls issued more than a Tick after the previous probe), n consecutive ones reach n distinct targets.",
  "Trusted: fake RoundTripper durations as lower bound, +max(2 ms, 50%) as upper bound of the client-measured duration; estimates are not read (no hook).",
  "property-based testing (rapid) against an interval-arithmetic reference model of the scheduler"),
 "C18": ("exploration",
  "Generated scenarios (never-up targets with 1-12 waiting callers and a target coming up or not; Client.Close while waiting; failover of a refusing target under continuous timed calls incl. down-up-down; Fallback pauses) over a scripted fake RoundTripper, DialTimeout 150/400/1000 ms. Oracle: release within 100 ms + 250 ms of a target becoming live, timeout within [DialTimeout-5 ms, +500 ms] with ErrTimeout / any error per call form, release within 500 ms of Close with ErrShutdown / any error and immediate failure afterwards, no routing to a refusing target later than 350 ms after its first ErrDial, reuse after recovery, no routing during Fallback.",
  "Trusted: fake RoundTripper; all bounds wall-clock under rule T; only clauses that hold under every reading of 'live' are asserted.",
  "property-based testing (rapid) of scripted fault scenarios with bounded-time oracles"),
 "C20": ("exploration",
  "Generated worlds (1-3 non-poll Servers, Conns with gated calls in flight and blocked stream readers, a Transport with gated calls and an idle pooled connection, a Client with a down target, waiting callers and the target recovering 0-101 ms before Client.Close) closed 1-3 times each in a drawn permutation or concurrently. Oracle: Close return values, Listen returns, every caller blocked in the library returns, 0 open endpoints on both sides of the counting network and no library-started goroutine left (goroutine-profile diff) within 10 s.",
  "Trusted: counting network, goroutine probe. Poll servers excluded by the statement.",
  "property-based testing (rapid) with resource-leak oracle (endpoint counter + goroutine diff)"),
 "C12": ("exploration",
  "Differential testing over the configuration space: each generated workload (calls to all handler shapes in every call form, failing calls, unknown methods, pings, stream rounds, sizes up to 200 KB plus one message larger than every configured buffer; sequential or 2-4 workers) is run on a reference configuration and on a drawn or enumerated tuple of network x TLS x header encoder x body codec (typed message per codec) x server modes x client modes x buffer sizes x spelling of each end (Listen/Dial by name, Options by name / constructor / both where the name must win, Transport, Client); the transcripts (per-item outcome and reply digest or error text, multiset of handler executions) must be equal; not completing a workload that the reference completes is a difference. One unrepaired finding in a dependency (ws with poll mode loses part of a large message) is listed in known_findings.json and excluded from the generators with a counter.",
  "Trusted: reference configuration (frame link, default header, json body). Real sockets use kernel-assigned loopback ports plus an identity probe because the library listens with SO_REUSEPORT. Content restricted to [a-z0-9] for xml.",
  "differential property-based testing (rapid) against a reference configuration + enumerated sample of the configuration matrix"),
}

NOT_BUILT_REASON = "check not built yet in this session; see DESIGN.md section 6 for the planned generated check"

def main():
    ids = [json.loads(l)["id"] for l in open(os.path.join(root, "properties.jsonl")) if l.strip()]
    checks, na = [], []
    for i in ids:
        if i in P and os.path.isdir(os.path.join(root, "harness", i.lower())):
            cat, text, note, tech = P[i]
            checks.append({
                "property_id": i,
                "quick_cmd": "./check %s quick" % i,
                "thorough_cmd": "./check %s thorough" % i,
                "evidence_file": "/verif/evidence/%s.json" % i,
                "replay_cmd_template": "./check %s --replay {path}" % i,
                "engine": "rapid-workers",
                "level_claimed": {"category": cat, "text": text, "design_ref": "DESIGN.md section 6, %s" % i},
                "level_note": note,
                "technique": tech,
            })
        else:
            na.append({"property_id": i, "reason": NOT_BUILT_REASON})
    man = {
        "version": 1,
        "setup_cmd": "./setup.sh",
        "hooks": {
            "guard": "verif",
            "enable": "workers are built with `go test -c -tags verif`; the only hook file is /repo/verif_hooks.go (//go:build verif)",
            "baseline_off_cmd": "cd /repo && GOFLAGS=-mod=mod GOPROXY=off GOSUMDB=off GOTOOLCHAIN=local go test -vet=off -count=1 -timeout 25m ./...",
            "source_commits": HOOK_COMMITS,
            "add_only": True,
        },
        "engines": [
            {"name": "rapid-workers", "path": "/verif/cmd/check + /verif/harness",
             "serves_properties": [c["property_id"] for c in checks],
             "kind_free_text": "driver (cmd/check) rebuilds one Go test binary per property against /repo's working tree with -tags verif, runs saved regression cases, sharded pgregory.net/rapid v1.3.0 generated cases and deterministic enumerations in worker subprocesses with a case journal, confirms/shrinks failures (rapid shrinking; driver-side delta debugging for crashes), matches known_findings.json, writes evidence"},
        ],
        "checks": checks,
        "not_applicable": na,
        "notes": "Exit codes: 0 held, 1 violation (VIOLATION line), 2 machinery could not decide. VERIF_SEED selects the rapid seeds; VERIF_REPO may point the build at a scratch copy of hslam/rpc for mutation runs.",
    }
    with open(os.path.join(root, "MANIFEST.json"), "w") as f:
        json.dump(man, f, indent=1)
        f.write("\n")

if __name__ == "__main__":
    main()
