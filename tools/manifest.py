#!/usr/bin/env python3
"""Generate /verif/MANIFEST.json from the table below (python3 tools/manifest.py)."""
import json, os, subprocess
root = os.path.dirname(os.path.dirname(os.path.abspath(__file__)))

HOOK_COMMITS = ["888e8a9"]

# id -> (category, level text, level_note, technique)
P = {
 "C07": ("exploration",
  "Generated header values (all varint widths and boundary lengths, random up to 3 MiB, generated scratch buffers) for all four encoders, judged by round-trip AND by an independent reference encoder/decoder in both directions, through the codecs directly and through a real Server and a real Conn; the 256 flag bytes and every boundary length +-1 are enumerated completely. Search cannot show absence for all inputs, but the input space is regular (length-prefixed fields) and every format boundary is covered exhaustively.",
  "Trusted: the reference codec (harness/kit/refcodec.go) as the statement of the documented formats; nil == empty for byte fields.",
  "property-based testing (rapid) with differential reference codec + exhaustive boundary enumeration; native go fuzz in thorough"),
}

NOT_BUILT_REASON = "check not built yet in this session; see DESIGN.md section 6 for the planned generated check"

def main():
    ids = [json.loads(l)["id"] for l in open(os.path.join(root, "properties.jsonl")) if l.strip()]
    checks, na = [], []
    for i in ids:
        if i in P and os.path.isdir(os.path.join(root, "harness", i.lower())):
            cat, text, note, tech = P[i]
            checks.append({
                "property_id": i,
                "quick_cmd": "./check %s quick" % i,
                "thorough_cmd": "./check %s thorough" % i,
                "evidence_file": "/verif/evidence/%s.json" % i,
                "replay_cmd_template": "./check %s --replay {path}" % i,
                "engine": "rapid-workers",
                "level_claimed": {"category": cat, "text": text, "design_ref": "DESIGN.md section 6, %s" % i},
                "level_note": note,
                "technique": tech,
            })
        else:
            na.append({"property_id": i, "reason": NOT_BUILT_REASON})
    man = {
        "version": 1,
        "setup_cmd": "./setup.sh",
        "hooks": {
            "guard": "verif",
            "enable": "workers are built with `go test -c -tags verif`; the only hook file is /repo/verif_hooks.go (//go:build verif)",
            "baseline_off_cmd": "cd /repo && GOFLAGS=-mod=mod GOPROXY=off GOSUMDB=off GOTOOLCHAIN=local go test -vet=off -count=1 -timeout 25m ./...",
            "source_commits": HOOK_COMMITS,
            "add_only": True,
        },
        "engines": [
            {"name": "rapid-workers", "path": "/verif/cmd/check + /verif/harness",
             "serves_properties": [c["property_id"] for c in checks],
             "kind_free_text": "driver (cmd/check) rebuilds one Go test binary per property against /repo's working tree with -tags verif, runs saved regression cases, sharded pgregory.net/rapid v1.3.0 generated cases and deterministic enumerations in worker subprocesses with a case journal, confirms/shrinks failures (rapid shrinking; driver-side delta debugging for crashes), matches known_findings.json, writes evidence"},
        ],
        "checks": checks,
        "not_applicable": na,
        "notes": "Exit codes: 0 held, 1 violation (VIOLATION line), 2 machinery could not decide. VERIF_SEED selects the rapid seeds; VERIF_REPO may point the build at a scratch copy of hslam/rpc for mutation runs.",
    }
    with open(os.path.join(root, "MANIFEST.json"), "w") as f:
        json.dump(man, f, indent=1)
        f.write("\n")

if __name__ == "__main__":
    main()
