#!/usr/bin/env python3
"""Refresh seeded/<name>/meta.json from the agent's meta and my verification.txt."""
import json, os, glob, sys
notes = {}
try:
    notes = json.load(open('/verif/seeded/notes.json'))
except Exception:
    pass
for d in sorted(glob.glob('/verif/seeded/*/')):
    d = d.rstrip('/')
    name = os.path.basename(d)
    if not os.path.exists(d + '/verification.txt'):
        continue
    am = {}
    try:
        am = json.load(open(d + '/agent_meta.json'))
    except Exception:
        pass
    ver = open(d + '/verification.txt').read().strip().split('\n')
    pid = am.get('property', name[:3])
    meta = {
        "property": pid,
        "written_by": "independent sub-agent given only the property text and a scratch worktree of hslam/rpc",
        "summary": am.get("summary", ""),
        "needs_to_manifest": am.get("needs_to_manifest", ""),
        "why_suite_passes": am.get("why_suite_passes", ""),
        "confirmed_by_me": ver,
        "how_to_rerun": "tools/seed_eval.sh %s <dir with OUT/patch.diff> (fresh scratch worktree of /repo HEAD: git apply, go build, repository suite, demonstration with and without the change, then VERIF_REPO=<worktree> ./check %s quick)" % (pid, pid),
    }
    meta.update(notes.get(name, {}))
    json.dump(meta, open(d + '/meta.json', 'w'), indent=1)
    if os.path.exists(d + '/seeded_demo_test.go.txt'):
        os.replace(d + '/seeded_demo_test.go.txt', d + '/demo_test.go.txt')
