#!/usr/bin/env python3
"""Validate MANIFEST.json and any evidence files against the task schemas (best effort offline)."""
import json, os, sys, glob
root = os.path.dirname(os.path.dirname(os.path.abspath(__file__)))
def load(p):
    with open(p) as f:
        return json.load(f)
try:
    import jsonschema
except ImportError:
    sys.path[:0] = glob.glob('/opt/veriftools/pyvenv/lib/python3*/site-packages')
    try:
        import jsonschema
    except ImportError:
        jsonschema = None
ok = True
man = load(os.path.join(root, 'MANIFEST.json'))
if jsonschema and os.path.exists('/root/.vp/MANIFEST.schema.json'):
    try:
        jsonschema.validate(man, load('/root/.vp/MANIFEST.schema.json'))
    except Exception as e:
        print('MANIFEST invalid:', e); ok = False
    es = load('/root/.vp/EVIDENCE.schema.json')
    for p in sorted(glob.glob(os.path.join(root, 'evidence', '*.json'))):
        try:
            jsonschema.validate(load(p), es)
        except Exception as e:
            print(p, 'invalid:', str(e)[:300]); ok = False
ids = [json.loads(l)['id'] for l in open(os.path.join(root, 'properties.jsonl')) if l.strip()]
claimed = {c['property_id'] for c in man['checks']}
na = {c['property_id'] for c in man.get('not_applicable', [])}
for i in ids:
    if (i in claimed) == (i in na):
        print('property', i, 'must be either claimed or not_applicable'); ok = False
sys.exit(0 if ok else 1)
