#!/bin/bash
# tools/seed_eval.sh <ID> <src-dir-with-OUT> [checks...]
# Confirms a seeded change written by a sub-agent (compiles, repository suite passes, demonstration
# fails with it and passes without it) in a fresh scratch worktree, then runs the given checks
# (default: the property's own quick check) against it, and files it under /verif/seeded/<name>/.
id="$1"; src="$2"; shift 2
checks="$*"; [ -z "$checks" ] && checks="$id"
export GOFLAGS=-mod=mod GOPROXY=off GOSUMDB=off GOTOOLCHAIN=local
name="${SEED_NAME:-$id}"
out=/verif/seeded/$name
mkdir -p "$out"
d=$(mktemp -d /tmp/vseed.XXXXXX); rmdir "$d"
git -C /repo worktree add -q --detach "$d" HEAD || exit 3
cleanup() { git -C /repo worktree remove --force "$d"; }
trap cleanup EXIT
cp "$src/OUT/patch.diff" "$out/patch.diff"
cp "$src/OUT/seeded_demo_test.go" "$out/seeded_demo_test.go.txt" 2>/dev/null || cp "$src/OUT/demo_test.go.txt" "$out/seeded_demo_test.go.txt" 2>/dev/null || cp "$src/seeded_demo_test.go" "$out/seeded_demo_test.go.txt"
cp "$src/OUT/meta.json" "$out/agent_meta.json" 2>/dev/null || cp "$src/OUT/agent_meta.json" "$out/agent_meta.json" 2>/dev/null
mkdir -p /tmp/seed
res="$out/verification.txt"; : > "$res"
( cd "$d" && git apply "$out/patch.diff" ) || { echo "patch does not apply" | tee -a "$res"; exit 3; }
( cd "$d" && go build ./... ) && echo "builds: yes" >> "$res" || { echo "builds: NO" | tee -a "$res"; exit 3; }
suite=$(cd "$d" && flock /tmp/seed/suite.lock go test -vet=off -count=1 -timeout 25m . 2>&1 | tail -1)
echo "repository suite with the change: $suite" >> "$res"
cp "$out/seeded_demo_test.go.txt" "$d/seeded_demo_test.go"
with=$(cd "$d" && timeout 600 go test -vet=off -count=1 -run TestSeededDemo . 2>&1 | tail -1)
echo "demonstration with the change: $with" >> "$res"
( cd "$d" && git apply -R "$out/patch.diff" )
without=$(cd "$d" && timeout 600 go test -vet=off -count=1 -run TestSeededDemo . 2>&1 | tail -1)
echo "demonstration without the change: $without" >> "$res"
( cd "$d" && git apply "$out/patch.diff" && rm -f seeded_demo_test.go )
cd /verif
stamp=$(mktemp /tmp/vstamp.XXXXXX)
cp -r evidence /tmp/vseed-evidence.$$ 2>/dev/null
for c in $checks; do
  tier=quick
  case "$c" in *:thorough) tier=thorough; c="${c%%:*}";; esac
  o=$(VERIF_REPO="$d" ./check "$c" "$tier" 2>&1)
  rc=$?
  echo "$o" >> "$stamp"
  echo "check $c $tier against the change: exit $rc" >> "$res"
  echo "$o" | grep -E "^(VIOLATION|  \[)" | head -4 | cut -c1-400 >> "$res"
done
rm -rf evidence; mv /tmp/vseed-evidence.$$ evidence 2>/dev/null
grep -ho 'replay=/verif/replays/[^ ]*' "$stamp" | sed 's/^replay=//' | sort -u | xargs -r rm -f
cat "$res"
rm -f "$stamp"
