#!/bin/bash
# tools/mut.sh <ID> <tier> <patch.diff | -e 's/..../' file>  : run a check against a mutated scratch copy of /repo
# The copy lives under /tmp and is removed afterwards; replays it produces are discarded.
id="$1"; tier="$2"; shift 2
d=$(mktemp -d /tmp/vmut.XXXXXX)
rsync -a --exclude .git /repo/ "$d/"
if [ "$1" = "-e" ]; then
  sed -i -E "$2" "$d/$3" || { rm -rf "$d"; exit 3; }
  (cd "$d" && diff -u "/repo/$3" "$3" | head -30)
else
  (cd "$d" && patch -p1 -s < "$1") || { rm -rf "$d"; exit 3; }
fi
(cd "$d" && GOFLAGS=-mod=mod GOPROXY=off GOSUMDB=off go build ./... ) || { echo "mutant does not build"; rm -rf "$d"; exit 3; }
if [ -n "$MUT_TESTS" ]; then (cd "$d" && GOFLAGS=-mod=mod GOPROXY=off GOSUMDB=off go test -vet=off -count=1 . 2>&1 | tail -2); fi
cd /verif
stamp=$(mktemp /tmp/vstamp.XXXXXX)
cp -r evidence /tmp/vmut-evidence.$$ 2>/dev/null
VERIF_REPO="$d" ./check "$id" "$tier" 2>&1 | tee "$stamp" | grep -v '^    ' | tail -12
rc=${PIPESTATUS[0]}
rm -rf evidence; mv /tmp/vmut-evidence.$$ evidence 2>/dev/null
grep -ho 'replay=/verif/replays/[^ ]*' "$stamp" | sed 's/^replay=//' | sort -u | xargs -r rm -f
rm -rf "$d"
rm -f "$stamp"
echo "mutant exit=$rc"
exit $rc
