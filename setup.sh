#!/bin/bash
# setup_cmd: build the driver and warm the Go build cache with every worker (offline).
cd "$(dirname "$0")" || exit 1
export GOFLAGS=-mod=mod GOPROXY=off GOSUMDB=off GOTOOLCHAIN=local CGO_ENABLED=0
mkdir -p bin evidence replays .build
go build -o bin/check ./cmd/check || exit 1
for d in harness/c*/; do
  ls "$d"*_test.go >/dev/null 2>&1 || continue
  go test -c -tags verif -o /dev/null "./$d" || exit 1
done
python3 tools/validate.py || exit 1
echo setup ok
