package c09

import (
	"bytes"
	"fmt"
	"sync"
	"testing"
	"time"

	"github.com/hslam/rpc"
	"pgregory.net/rapid"
	"verif/harness/kit"
)

// StreamSpec is one stream of a case.
type StreamSpec struct {
	Behaviour string   `json:"behaviour"` // echo | pushfirst | pushonly | readonly
	Pushes    int      `json:"pushes"`
	Writes    int      `json:"writes"`
	Sizes     []int    `json:"sizes"` // cycled over messages
	Salt      uint32   `json:"salt"`
	ReadBuf   string   `json:"read_buf,omitempty"` // none | small | big
	BadWrite  int      `json:"bad_write,omitempty"` // >0: before client write number BadWrite-1 the client tries to write a value the codec cannot encode
}

// Case is several streams plus unary traffic on one connection.
type Case struct {
	M       kit.Modes    `json:"modes"`
	Streams []StreamSpec `json:"streams"`
	Unary   int          `json:"unary"`
	Pings   int          `json:"pings"`
	Release string       `json:"release"` // immediate | burst | one
}

func gen(t *rapid.T) Case {
	c := Case{}
	c.M = kit.Modes{
		Enc:           rapid.SampledFrom(kit.Encoders).Draw(t, "enc"),
		SrvPipelining: rapid.IntRange(0, 2).Draw(t, "srv_pipe") == 0,
		SrvDirect:     rapid.Bool().Draw(t, "srv_direct"),
		CliPipelining: rapid.IntRange(0, 3).Draw(t, "cli_pipe") == 0,
		CliDirect:     rapid.Bool().Draw(t, "cli_direct"),
		Link:          "frame",
	}
	kit.DrawBuffers(t, &c.M)
	if rapid.IntRange(0, 3).Draw(t, "unix") == 0 {
		// real unix sockets, half of them against a poll-mode server (no control over delivery there)
		c.M.Link = "unix"
		c.M.Poll = rapid.Bool().Draw(t, "poll")
	}
	n := rapid.IntRange(1, 4).Draw(t, "streams")
	for i := 0; i < n; i++ {
		s := StreamSpec{
			Behaviour: rapid.SampledFrom([]string{"echo", "pushfirst", "pushfirst", "pushonly", "readonly"}).Draw(t, "behaviour"),
			Salt:      rapid.Uint32().Draw(t, "salt"),
			ReadBuf:   rapid.SampledFrom([]string{"none", "small", "big"}).Draw(t, "read_buf"),
		}
		if s.Behaviour == "pushfirst" || s.Behaviour == "pushonly" {
			s.Pushes = rapid.IntRange(1, 30).Draw(t, "pushes")
			if rapid.Bool().Draw(t, "few_pushes") {
				s.Pushes = rapid.IntRange(1, 5).Draw(t, "pushes2")
			}
		}
		if s.Behaviour != "pushonly" {
			s.Writes = rapid.IntRange(0, 30).Draw(t, "writes")
			if s.Writes > 0 && rapid.IntRange(0, 4).Draw(t, "bad_write") == 0 {
				s.BadWrite = 1 + rapid.IntRange(0, s.Writes-1).Draw(t, "bad_write_at")
			}
		}
		ns := rapid.IntRange(1, 3).Draw(t, "nsizes")
		for k := 0; k < ns; k++ {
			s.Sizes = append(s.Sizes, rapid.SampledFrom([]int{16, 17, 40, 128, 129, 1000, 16384, 66000}).Draw(t, "size"))
		}
		c.Streams = append(c.Streams, s)
	}
	c.Unary = rapid.IntRange(0, 30).Draw(t, "unary")
	c.Pings = rapid.IntRange(0, 5).Draw(t, "pings")
	c.Release = rapid.SampledFrom([]string{"immediate", "burst", "burst", "one"}).Draw(t, "release")
	if c.M.Link != "frame" {
		c.Release = "immediate"
	}
	return c
}

const bound = 15 * time.Second

func msg(stream, dir, idx int, s StreamSpec) []byte {
	id := uint64(stream+1)<<40 | uint64(dir)<<32 | uint64(idx+1)
	return kit.MakePayload(id, kit.DirEcho, s.Salt+uint32(idx), s.Sizes[idx%len(s.Sizes)])
}

func readBuf(kind string, n int) []byte {
	switch kind {
	case "small":
		return make([]byte, 0, 8)
	case "big":
		return make([]byte, 0, n+64)
	}
	return nil
}

func run(c Case) kit.Outcome {
	if !c.M.Valid() || (c.M.Link != "frame" && c.M.Link != "unix") || len(c.Streams) == 0 || len(c.Streams) > 4 || c.Unary < 0 || c.Unary > 500 || c.Pings < 0 || c.Pings > 100 {
		return kit.Outcome{Invalid: true}
	}
	for _, s := range c.Streams {
		if s.Pushes < 0 || s.Pushes > 500 || s.Writes < 0 || s.Writes > 500 || len(s.Sizes) == 0 || s.BadWrite < 0 || s.BadWrite > s.Writes {
			return kit.Outcome{Invalid: true}
		}
		for _, z := range s.Sizes {
			if z < kit.HeaderLen || z > 1<<20 {
				return kit.Outcome{Invalid: true}
			}
		}
		switch s.Behaviour {
		case "echo", "readonly":
			if s.Pushes != 0 {
				return kit.Outcome{Invalid: true}
			}
		case "pushfirst":
		case "pushonly":
			if s.Writes != 0 {
				return kit.Outcome{Invalid: true}
			}
		default:
			return kit.Outcome{Invalid: true}
		}
	}
	switch c.Release {
	case "immediate", "burst", "one":
	default:
		return kit.Outcome{Invalid: true}
	}
	if c.M.Link != "frame" && (c.M.Link != "unix" || c.Release != "immediate") {
		return kit.Outcome{Invalid: true}
	}
	s, err := kit.NewSession(c.M)
	if err != nil {
		return kit.Undecided("%v", err)
	}
	defer s.Close()
	stopRelease := make(chan struct{})
	var link *kit.FrameLink
	s.OnLink = func(l *kit.FrameLink) {
		link = l
		if c.Release != "immediate" {
			l.C.SetHold(true)
		}
	}
	conn, err := s.Dial()
	if err != nil {
		return kit.Undecided("dial: %v", err)
	}
	if c.Release != "immediate" {
		go func() {
			for {
				select {
				case <-stopRelease:
					link.C.SetHold(false)
					return
				default:
				}
				if c.Release == "burst" {
					// let the server emit the acknowledgement and its first pushes, then deliver them as one burst
					time.Sleep(150 * time.Microsecond)
					link.C.Release(-1)
				} else {
					link.C.Release(1)
					time.Sleep(20 * time.Microsecond)
				}
			}
		}()
	}
	defer close(stopRelease)
	for i, sp := range c.Streams {
		plan := kit.StreamPlan{Behaviour: sp.Behaviour, Reads: -1}
		for k := 0; k < sp.Pushes; k++ {
			plan.Pushes = append(plan.Pushes, msg(i, 1, k, sp))
		}
		s.Env.SetStreamPlan(i, plan)
	}
	var mu sync.Mutex
	var failure *kit.Outcome
	var undecided string
	fail := func(o kit.Outcome) {
		mu.Lock()
		if failure == nil {
			failure = &o
		}
		mu.Unlock()
	}
	undec := func(f string, a ...interface{}) {
		mu.Lock()
		if undecided == "" {
			undecided = fmt.Sprintf(f, a...)
		}
		mu.Unlock()
	}
	sig := fmt.Sprintf("release=%s cd=%v sd=%v", c.Release, c.M.CliDirect, c.M.SrvDirect)
	var wg sync.WaitGroup
	streams := make([]rpc.Stream, len(c.Streams))
	// read one message with a bound; nil,false on timeout
	readOne := func(st rpc.Stream, buf []byte, d time.Duration) ([]byte, error, bool) {
		type res struct {
			m   []byte
			err error
		}
		ch := make(chan res, 1)
		go func() {
			var m []byte
			err := st.ReadMessage(buf, &m)
			ch <- res{m, err}
		}()
		select {
		case r := <-ch:
			return r.m, r.err, true
		case <-time.After(d):
			return nil, nil, false
		}
	}
	for i := range c.Streams {
		i := i
		sp := c.Streams[i]
		wg.Add(1)
		go func() {
			defer wg.Done()
			type opened struct {
				st  rpc.Stream
				err error
			}
			oc := make(chan opened, 1)
			go func() {
				st, err := conn.NewStream(fmt.Sprintf("S.Stream%d", i))
				oc <- opened{st, err}
			}()
			var st rpc.Stream
			select {
			case o := <-oc:
				if o.err != nil {
					undec("NewStream %d failed: %v", i, o.err)
					return
				}
				st = o.st
			case <-time.After(bound):
				undec("NewStream %d did not return within %v", i, bound)
				return
			}
			streams[i] = st
			// server-first pushes
			for k := 0; k < sp.Pushes; k++ {
				want := msg(i, 1, k, sp)
				m, err, ok := readOne(st, readBuf(sp.ReadBuf, len(want)), bound)
				if !ok {
					o := kit.Fail("message-lost", "stream %d: server-written message %d of %d (written by the handler right after the stream was opened) never arrived at the client within %v", i, k, sp.Pushes, bound)
					o.Timing, o.Sig = true, "server-first "+sig
					fail(o)
					return
				}
				if err != nil {
					fail(kit.Fail("read-error", "stream %d: ReadMessage returned %v while expecting server message %d", i, err, k))
					return
				}
				if !bytes.Equal(m, want) {
					o := kit.Fail("wrong-message", "stream %d: expected server message %d (%s) but read %s%s", i, k, kit.Brief(want), kit.Brief(m), describe(c, m))
					o.Sig = "server-first " + sig
					fail(o)
					return
				}
			}
			// client writes (echoed back unless readonly)
			for k := 0; k < sp.Writes; k++ {
				if sp.BadWrite == k+1 {
					// a write that fails locally (nothing reaches the wire) must not cost later messages
					bad := "not a *[]byte"
					st.WriteMessage(&bad)
				}
				m := msg(i, 0, k, sp)
				if err := st.WriteMessage(&m); err != nil {
					undec("stream %d: WriteMessage %d failed: %v", i, k, err)
					return
				}
				if sp.Behaviour == "readonly" {
					continue
				}
				want := kit.Transform(m)
				got, err, ok := readOne(st, readBuf(sp.ReadBuf, len(want)), bound)
				if !ok {
					o := kit.Fail("message-lost", "stream %d: the echo of client message %d never arrived within %v", i, k, bound)
					o.Timing, o.Sig = true, "echo "+sig
					fail(o)
					return
				}
				if err != nil {
					fail(kit.Fail("read-error", "stream %d: ReadMessage returned %v while expecting echo %d", i, err, k))
					return
				}
				if !bytes.Equal(got, want) {
					o := kit.Fail("wrong-message", "stream %d: expected the echo of message %d (%s) but read %s%s", i, k, kit.Brief(want), kit.Brief(got), describe(c, got))
					o.Sig = "echo " + sig
					fail(o)
					return
				}
			}
		}()
	}
	// interleaved unary traffic
	wg.Add(1)
	go func() {
		defer wg.Done()
		for k := 0; k < c.Unary+c.Pings; k++ {
			resc := make(chan error, 1)
			args := kit.MakePayload(uint64(1)<<50|uint64(k+1), kit.DirEcho, uint32(k), 16+(k*37)%300)
			var reply []byte
			isPing := k%((c.Unary+c.Pings)/(c.Pings+1)+1) == 0 && c.Pings > 0
			go func() {
				if isPing {
					resc <- conn.Ping()
				} else {
					resc <- conn.Call(kit.Methods[k%4], &args, &reply)
				}
			}()
			select {
			case err := <-resc:
				if err != nil {
					undec("unary item %d failed: %v", k, err)
					return
				}
				if !isPing && !bytes.Equal(reply, kit.Transform(args)) {
					fail(kit.Fail("unary-wrong-reply", "unary call %d interleaved with stream traffic got a reply that is not its own: %s%s", k, kit.Brief(reply), describe(c, reply)))
					return
				}
			case <-time.After(bound):
				undec("unary item %d did not complete within %v", k, bound)
				return
			}
		}
	}()
	wg.Wait()
	if failure != nil {
		return *failure
	}
	if undecided != "" {
		return kit.Undecided("%s", undecided)
	}
	// server side: each handler read exactly what the client wrote, in order
	for i, sp := range c.Streams {
		deadline := time.Now().Add(bound)
		for len(s.Env.StreamSlot(i).Received) < sp.Writes {
			if time.Now().After(deadline) {
				o := kit.Fail("message-lost", "stream %d: the server handler received %d of the %d messages the client wrote", i, len(s.Env.StreamSlot(i).Received), sp.Writes)
				o.Timing = true
				return o
			}
			time.Sleep(100 * time.Microsecond)
		}
	}
	time.Sleep(time.Millisecond)
	for i, sp := range c.Streams {
		// the open acknowledgement precedes the start of the handler: a stream nobody wrote to
		// gives no other sign that its handler is running, so wait for it (bounded)
		deadline := time.Now().Add(bound)
		for s.Env.StreamSlot(i).Started == 0 {
			if time.Now().After(deadline) {
				o := kit.Fail("handler-count", "stream %d: its open was acknowledged but the handler had not started %v later", i, bound)
				o.Timing = true
				return o
			}
			time.Sleep(100 * time.Microsecond)
		}
		rec := s.Env.StreamSlot(i)
		if rec.Started != 1 {
			return kit.Fail("handler-count", "stream %d: handler started %d times", i, rec.Started)
		}
		if len(rec.Received) != sp.Writes {
			return kit.Fail("duplicate-or-foreign-message", "stream %d: the server handler received %d messages, the client wrote %d", i, len(rec.Received), sp.Writes)
		}
		for k, m := range rec.Received {
			if want := msg(i, 0, k, sp); !bytes.Equal(m, want) {
				return kit.Fail("wrong-message", "stream %d: server handler read %s as message %d, the client wrote %s%s", i, kit.Brief(m), k, kit.Brief(want), describe(c, m))
			}
		}
	}
	// no extra message is pending on any client stream
	for i, st := range streams {
		if st == nil {
			continue
		}
		if m, err, ok := readOne(st, nil, 2*time.Millisecond); ok && err == nil {
			return kit.Fail("duplicate-or-foreign-message", "stream %d: an extra message %s was delivered after the whole expected sequence%s", i, kit.Brief(m), describe(c, m))
		}
	}
	for _, st := range streams {
		if st != nil {
			go st.Close()
		}
	}
	out := kit.Outcome{Classes: []string{"release=" + c.Release, "enc=" + c.M.Enc, "link=" + c.M.Link}}
	if c.M.Poll {
		out.Classes = append(out.Classes, "poll")
	}
	serverFirst := false
	msgs := 0
	for _, sp := range c.Streams {
		if sp.Pushes > 0 {
			serverFirst = true
		}
		msgs += sp.Pushes + sp.Writes
	}
	if serverFirst || len(c.Streams) >= 2 || (c.Unary > 0 && msgs > 0) {
		out.Nontrivial = true
	}
	if serverFirst {
		out.Classes = append(out.Classes, "server-writes-first")
	}
	for _, sp := range c.Streams {
		if sp.BadWrite > 0 {
			out.Classes = append(out.Classes, "failed-local-write")
			break
		}
	}
	if len(c.Streams) >= 2 {
		out.Classes = append(out.Classes, "multi-stream")
	}
	out.Counters = map[string]int{"stream_messages": msgs, "unary": c.Unary}
	return out
}

// describe says where a foreign message belongs.
func describe(c Case, m []byte) string {
	if len(m) == 0 {
		return " (an empty message)"
	}
	id, _, ok := kit.ParsePayload(m)
	if !ok {
		id, _, ok = kit.ParsePayload(kit.Transform(m))
		if !ok {
			return ""
		}
	}
	if id>>50 == 1 {
		return fmt.Sprintf(" (it belongs to unary call %d)", id&0xffffffff)
	}
	return fmt.Sprintf(" (it is message %d, direction %d, of stream %d)", id&0xffffffff-1, id>>32&0xff, id>>40-1)
}

var prop = kit.Property[Case]{
	ID:    "C09",
	Level: "exploration",
	Rule:  "rapid-generated cases: 1-4 streams on one real Conn to a real Server (4 header encoders x modes) over a frame link whose server-to-client direction the harness holds and releases (immediately / as bursts after the server has emitted the open acknowledgement and its first writes / one frame at a time) or, in a quarter of the cases, over real unix sockets (half of those against a poll-mode server; delivery not controlled there); per stream a handler behaviour (echo, push n messages immediately then echo, push only, read only), 0-30 client writes and 0-30 server-first writes of sizes 16 B - 66 KB, each message carrying (stream, direction, index); interleaved with 0-30 unary calls and pings. Oracle: on each side and stream the sequence read equals the sequence written (no loss, duplicate, reordering, corruption, empty or foreign message, no extra message afterwards); unary replies are the caller's own. Non-trivial: the server writes before the client's first write, or >= 2 streams, or unary traffic interleaved with stream traffic; distinct by SHA-1 of the case.",
	Assumptions: []string{
		"a message that has not arrived 15 s after it was written counts as lost (rule T: must reproduce in isolation)",
		"an extra message after the expected sequence is looked for during 2 ms only",
	},
	Gen: gen,
	Run: run,
}

func TestProperty(t *testing.T) { kit.Check(t, prop) }
