package c12

import (
	"context"
	"crypto/sha1"
	"encoding/binary"
	"errors"
	"fmt"
	"sync"

	"github.com/hslam/rpc"
)

// Core is the codec-independent content of a message.
type Core struct {
	ID   uint64 `json:"id" xml:"id"`
	Dir  uint8  `json:"dir" xml:"dir"`
	Text string `json:"text" xml:"text"`
	Data []byte `json:"data" xml:"data"`
}

func (c Core) digest() [20]byte {
	b := make([]byte, 0, 16+len(c.Text)+len(c.Data))
	var t [9]byte
	binary.BigEndian.PutUint64(t[:8], c.ID)
	t[8] = c.Dir
	b = append(b, t[:]...)
	b = append(b, c.Text...)
	b = append(b, 0)
	b = append(b, c.Data...)
	return sha1.Sum(b)
}

// flat is a tiny self-describing binary encoding shared by the code/pb/msgp message types.
// Decoding aliases the input for Data (like the real zero-copy codecs); Text is copied.
func (c *Core) appendFlat(b []byte) []byte {
	var t [9]byte
	binary.BigEndian.PutUint64(t[:8], c.ID)
	t[8] = c.Dir
	b = append(b, t[:]...)
	b = binary.AppendUvarint(b, uint64(len(c.Text)))
	b = append(b, c.Text...)
	b = binary.AppendUvarint(b, uint64(len(c.Data)))
	b = append(b, c.Data...)
	return b
}

func (c *Core) flatSize() int { return 9 + 10 + len(c.Text) + 10 + len(c.Data) }

var errFlat = errors.New("flat: malformed message")

func (c *Core) parseFlat(b []byte) (int, error) {
	if len(b) < 9 {
		return 0, errFlat
	}
	c.ID = binary.BigEndian.Uint64(b[:8])
	c.Dir = b[8]
	off := 9
	l, n := binary.Uvarint(b[off:])
	if n <= 0 || uint64(len(b)-off-n) < l {
		return 0, errFlat
	}
	off += n
	c.Text = string(b[off : off+int(l)])
	off += int(l)
	l, n = binary.Uvarint(b[off:])
	if n <= 0 || uint64(len(b)-off-n) < l {
		return 0, errFlat
	}
	off += n
	c.Data = b[off : off+int(l)]
	off += int(l)
	return off, nil
}

// MsgJSON is used with the json and xml body codecs.
type MsgJSON struct {
	Core
}

// CoreOf returns the content.
func (m *MsgJSON) CoreOf() *Core { return &m.Core }

// MsgCode implements rpc.Code.
type MsgCode struct{ C Core }

// CoreOf returns the content.
func (m *MsgCode) CoreOf() *Core { return &m.C }

// Marshal implements rpc.Code.
func (m *MsgCode) Marshal(buf []byte) ([]byte, error) {
	if cap(buf) >= m.C.flatSize() {
		return m.C.appendFlat(buf[:0]), nil
	}
	return m.C.appendFlat(nil), nil
}

// Unmarshal implements rpc.Code.
func (m *MsgCode) Unmarshal(buf []byte) (uint64, error) {
	n, err := m.C.parseFlat(buf)
	return uint64(n), err
}

// MsgPB implements rpc.GoGoProtobuf.
type MsgPB struct{ C Core }

// CoreOf returns the content.
func (m *MsgPB) CoreOf() *Core { return &m.C }

// Size implements rpc.GoGoProtobuf.
func (m *MsgPB) Size() int { return len(m.C.appendFlat(nil)) }

// Marshal implements rpc.GoGoProtobuf.
func (m *MsgPB) Marshal() ([]byte, error) { return m.C.appendFlat(nil), nil }

// MarshalTo implements rpc.GoGoProtobuf.
func (m *MsgPB) MarshalTo(buf []byte) (int, error) {
	b := m.C.appendFlat(nil)
	if len(buf) < len(b) {
		return 0, errors.New("flat: buffer too small")
	}
	return copy(buf, b), nil
}

// Unmarshal implements rpc.GoGoProtobuf.
func (m *MsgPB) Unmarshal(data []byte) error {
	_, err := m.C.parseFlat(data)
	return err
}

// MsgMsgp implements rpc.MsgPack.
type MsgMsgp struct{ C Core }

// CoreOf returns the content.
func (m *MsgMsgp) CoreOf() *Core { return &m.C }

// MarshalMsg implements rpc.MsgPack.
func (m *MsgMsgp) MarshalMsg(buf []byte) ([]byte, error) {
	if cap(buf) >= m.C.flatSize() {
		return m.C.appendFlat(buf[:0]), nil
	}
	return m.C.appendFlat(nil), nil
}

// UnmarshalMsg implements rpc.MsgPack.
func (m *MsgMsgp) UnmarshalMsg(b []byte) ([]byte, error) {
	n, err := m.C.parseFlat(b)
	if err != nil {
		return nil, err
	}
	return b[n:], nil
}

// MsgBytes is the *[]byte body: the flat encoding is the byte slice itself.
type MsgBytes []byte

type corePtr[T any] interface {
	*T
	CoreOf() *Core
}

// exec is one handler execution as the configuration-independent transcript sees it.
type exec struct {
	ID     uint64
	Method string
	Digest [20]byte
}

// world is the server-side log of one run.
type world struct {
	mu    sync.Mutex
	execs []exec
}

func (w *world) log(method string, c *Core) {
	w.mu.Lock()
	w.execs = append(w.execs, exec{ID: c.ID, Method: method, Digest: c.digest()})
	w.mu.Unlock()
}

const (
	dirEcho = 0
	dirFail = 1
)

// answer computes the reply content for a request content.
func answer(w *world, method string, req *Core) (Core, error) {
	w.log(method, req)
	if req.Dir == dirFail {
		return Core{}, errors.New(string(append([]byte(nil), req.Text...)))
	}
	out := Core{ID: req.ID, Dir: req.Dir, Text: "re:" + req.Text, Data: make([]byte, len(req.Data))}
	for i, b := range req.Data {
		out.Data[len(req.Data)-1-i] = b
	}
	return out, nil
}

// MSvc is the service over a typed message; it offers every handler shape plus a stream.
type MSvc[T any, P corePtr[T]] struct{ W *world }

// Echo has the shape (req, res) error.
func (s *MSvc[T, P]) Echo(req *T, res *T) error {
	out, err := answer(s.W, "Echo", P(req).CoreOf())
	if err != nil {
		return err
	}
	*P(res).CoreOf() = out
	return nil
}

// EchoCtx has the shape (ctx, req, res) error.
func (s *MSvc[T, P]) EchoCtx(ctx context.Context, req *T, res *T) error {
	out, err := answer(s.W, "EchoCtx", P(req).CoreOf())
	if err != nil {
		return err
	}
	*P(res).CoreOf() = out
	return nil
}

// EchoRet has the shape (req) (*res, error).
func (s *MSvc[T, P]) EchoRet(req *T) (*T, error) {
	out, err := answer(s.W, "EchoRet", P(req).CoreOf())
	if err != nil {
		return nil, err
	}
	res := new(T)
	*P(res).CoreOf() = out
	return res, nil
}

// EchoCtxRet has the shape (ctx, req) (*res, error).
func (s *MSvc[T, P]) EchoCtxRet(ctx context.Context, req *T) (*T, error) {
	out, err := answer(s.W, "EchoCtxRet", P(req).CoreOf())
	if err != nil {
		return nil, err
	}
	res := new(T)
	*P(res).CoreOf() = out
	return res, nil
}

// MStream is the typed server-side stream argument.
type MStream[T any] struct{ stream rpc.Stream }

// Connect connects the rpc Stream.
func (s *MStream[T]) Connect(stream rpc.Stream) error { s.stream = stream; return nil }

// Read reads one message.
func (s *MStream[T]) Read(buf []byte, m *T) error { return s.stream.ReadMessage(buf, m) }

// Write writes one message.
func (s *MStream[T]) Write(m *T) error { return s.stream.WriteMessage(m) }

// Stream echoes every message through answer.
func (s *MSvc[T, P]) Stream(st *MStream[T]) error {
	for {
		req := new(T)
		if err := st.Read(nil, req); err != nil {
			return err
		}
		out, err := answer(s.W, "Stream", P(req).CoreOf())
		if err != nil {
			out = Core{ID: P(req).CoreOf().ID, Text: "err:" + err.Error()}
		}
		res := new(T)
		*P(res).CoreOf() = out
		if err := st.Write(res); err != nil {
			return err
		}
	}
}

// BSvc is the same service over the *[]byte body (flat encoding inside the bytes).
type BSvc struct{ W *world }

func (s *BSvc) do(method string, req *[]byte) ([]byte, error) {
	var c Core
	if _, err := c.parseFlat(*req); err != nil {
		return nil, err
	}
	out, err := answer(s.W, method, &c)
	if err != nil {
		return nil, err
	}
	return out.appendFlat(nil), nil
}

// Echo has the shape (req, res) error.
func (s *BSvc) Echo(req *[]byte, res *[]byte) error {
	b, err := s.do("Echo", req)
	if err != nil {
		return err
	}
	*res = b
	return nil
}

// EchoCtx has the shape (ctx, req, res) error.
func (s *BSvc) EchoCtx(ctx context.Context, req *[]byte, res *[]byte) error {
	b, err := s.do("EchoCtx", req)
	if err != nil {
		return err
	}
	*res = b
	return nil
}

// EchoRet has the shape (req) (*res, error).
func (s *BSvc) EchoRet(req *[]byte) (*[]byte, error) {
	b, err := s.do("EchoRet", req)
	if err != nil {
		return nil, err
	}
	return &b, nil
}

// EchoCtxRet has the shape (ctx, req) (*res, error).
func (s *BSvc) EchoCtxRet(ctx context.Context, req *[]byte) (*[]byte, error) {
	b, err := s.do("EchoCtxRet", req)
	if err != nil {
		return nil, err
	}
	return &b, nil
}

// BStream is the bytes stream argument.
type BStream struct{ stream rpc.Stream }

// Connect connects the rpc Stream.
func (s *BStream) Connect(stream rpc.Stream) error { s.stream = stream; return nil }

// Read reads one message.
func (s *BStream) Read(buf []byte, m *[]byte) error { return s.stream.ReadMessage(buf, m) }

// Write writes one message.
func (s *BStream) Write(m *[]byte) error { return s.stream.WriteMessage(m) }

// Stream echoes every message.
func (s *BSvc) Stream(st *BStream) error {
	for {
		var req []byte
		if err := st.Read(nil, &req); err != nil {
			return err
		}
		b, err := s.do("Stream", &req)
		if err != nil {
			b = (&Core{Text: "err:" + err.Error()}).appendFlat(nil)
		}
		if err := st.Write(&b); err != nil {
			return err
		}
	}
}

// bodies lists the body codecs.
var bodies = []string{"json", "xml", "code", "pb", "msgp", "bytes"}

// register registers the service matching a body codec under the name "M".
func register(srv *rpc.Server, body string, w *world) error {
	switch body {
	case "json", "xml":
		return srv.RegisterName("M", &MSvc[MsgJSON, *MsgJSON]{W: w})
	case "code":
		return srv.RegisterName("M", &MSvc[MsgCode, *MsgCode]{W: w})
	case "pb":
		return srv.RegisterName("M", &MSvc[MsgPB, *MsgPB]{W: w})
	case "msgp":
		return srv.RegisterName("M", &MSvc[MsgMsgp, *MsgMsgp]{W: w})
	case "bytes":
		return srv.RegisterName("M", &BSvc{W: w})
	}
	return fmt.Errorf("unknown body %s", body)
}

// newCodec returns the constructor of a body codec.
func newCodec(body string) func() rpc.Codec {
	switch body {
	case "json":
		return rpc.NewJSONCodec
	case "xml":
		return func() rpc.Codec { return &rpc.XMLCodec{} }
	case "code":
		return rpc.NewCODECodec
	case "pb":
		return rpc.NewPBCodec
	case "msgp":
		return func() rpc.Codec { return &rpc.MSGPCodec{} }
	case "bytes":
		return func() rpc.Codec { return &rpc.BYTESCodec{} }
	}
	return nil
}

// pack builds the typed args and reply values for a body codec and a getter of the reply content.
func pack(body string, c Core) (args interface{}, reply interface{}, get func() (Core, error)) {
	switch body {
	case "json", "xml":
		a, r := &MsgJSON{Core: c}, &MsgJSON{}
		return a, r, func() (Core, error) { return r.Core, nil }
	case "code":
		a, r := &MsgCode{C: c}, &MsgCode{}
		return a, r, func() (Core, error) { return r.C, nil }
	case "pb":
		a, r := &MsgPB{C: c}, &MsgPB{}
		return a, r, func() (Core, error) { return r.C, nil }
	case "msgp":
		a, r := &MsgMsgp{C: c}, &MsgMsgp{}
		return a, r, func() (Core, error) { return r.C, nil }
	default:
		a := c.appendFlat(nil)
		var r []byte
		return &a, &r, func() (Core, error) {
			var out Core
			_, err := out.parseFlat(r)
			return out, err
		}
	}
}
