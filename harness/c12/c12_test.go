package c12

import (
	"context"
	"crypto/tls"
	"fmt"
	"net"
	"os"
	"sort"
	"sync"
	"sync/atomic"
	"testing"
	"time"

	"github.com/hslam/rpc"
	"github.com/hslam/socket"
	"pgregory.net/rapid"
	"verif/harness/kit"
)

// Config is one configuration tuple.
type Config struct {
	Net       string `json:"net"` // frame | mem | inproc | tcp | unix | http | ws
	TLS       bool   `json:"tls,omitempty"`
	Header    string `json:"header"` // default | pb | code | json
	Body      string `json:"body"`   // json | xml | code | pb | msgp | bytes
	Poll      bool   `json:"poll,omitempty"`
	SrvPipe   bool   `json:"srv_pipe,omitempty"`
	SrvDirect bool   `json:"srv_direct,omitempty"`
	CtxBuf    bool   `json:"ctx_buf,omitempty"`
	NoCopy    bool   `json:"no_copy,omitempty"`
	CliPipe   bool   `json:"cli_pipe,omitempty"`
	CliDirect bool   `json:"cli_direct,omitempty"`
	SrvBuf    int    `json:"srv_buf,omitempty"`
	CliBuf    int    `json:"cli_buf,omitempty"`
	CtxCap    int    `json:"ctx_cap,omitempty"` // capacity of the context buffer the client passes to CallWithContext (0 = none)
	SrvSpell  string `json:"srv_spell"` // names | funcs | both | listen
	CliSpell  string `json:"cli_spell"` // names | funcs | both | dial | transport | client
}

// Item is one unit of the workload.
type Item struct {
	Kind  string `json:"kind"` // call | fail | unknown | ping | stream
	Shape int    `json:"shape,omitempty"`
	Form  string `json:"form,omitempty"` // call | go | ctx | roundtrip
	Size  int    `json:"size,omitempty"`
	Salt  uint32 `json:"salt,omitempty"`
}

// Case is a workload and the configuration it is run on (besides the reference configuration).
type Case struct {
	Cfg     Config `json:"cfg"`
	Items   []Item `json:"items"`
	Workers int    `json:"workers"`
}

var (
	nets      = []string{"frame", "mem", "inproc", "tcp", "unix", "http", "ws"}
	headers   = []string{"default", "pb", "code", "json"}
	bufSizes  = []int{0, 64, 4096, 65536, 1 << 20}
	named     = map[string]bool{"json": true, "code": true, "pb": true}
	reference = Config{Net: "frame", Header: "default", Body: "json", SrvSpell: "funcs", CliSpell: "funcs"}
	shapes    = []string{"M.Echo", "M.EchoCtx", "M.EchoRet", "M.EchoCtxRet"}
)

func (c Config) real() bool { return c.Net != "frame" && c.Net != "mem" }

// valid states the constraints of the configuration space.
func (c Config) valid() bool {
	in := func(s string, l []string) bool {
		for _, x := range l {
			if x == s {
				return true
			}
		}
		return false
	}
	if !in(c.Net, nets) || !in(c.Header, headers) || !in(c.Body, bodies) {
		return false
	}
	if c.SrvBuf < 0 || c.CliBuf < 0 || c.SrvBuf > 4<<20 || c.CliBuf > 4<<20 || c.CtxCap < 0 || c.CtxCap > 4<<20 {
		return false
	}
	if c.TLS && !c.real() {
		return false
	}
	if c.Poll && !(c.Net == "tcp" || c.Net == "unix" || c.Net == "http" || c.Net == "ws") {
		return false
	}
	if c.NoCopy && !(c.Body == "json" || c.Body == "xml") {
		return false
	}
	if c.Poll && c.Net == "ws" && !wsPollOn {
		// known finding C12/ws+poll (known_findings.json): excluded from the search by
		// construction, counted by the generators
		return false
	}
	if c.Net == "ws" && (c.CliPipe || c.CliSpell == "transport" || c.CliSpell == "client") {
		// ws carries one call at a time: no pipelining, and no Transport/Client, whose housekeeping
		// and health pings run concurrently with user calls
		return false
	}
	spellOK := func(s string, client bool) bool {
		switch s {
		case "funcs":
			return true
		case "names", "both":
			// registered names exist only for json/code/pb bodies and for real networks
			return named[c.Body] && c.real()
		case "listen", "dial":
			return named[c.Body] && c.real() && c.Header == "default"
		case "transport", "client":
			return client && c.Net != "frame"
		}
		return false
	}
	if c.Net == "frame" {
		return c.SrvSpell == "funcs" && c.CliSpell == "funcs"
	}
	if !spellOK(c.SrvSpell, false) || c.SrvSpell == "dial" || c.SrvSpell == "transport" || c.SrvSpell == "client" {
		return false
	}
	if !spellOK(c.CliSpell, true) || c.CliSpell == "listen" {
		return false
	}
	if (c.CliSpell == "dial" || c.SrvSpell == "listen") && c.CliBuf != 0 && c.CliSpell == "dial" {
		return false
	}
	return true
}

func genConfig(t *rapid.T) Config {
	for {
		c := Config{
			Net:       rapid.SampledFrom(nets).Draw(t, "net"),
			Header:    rapid.SampledFrom(headers).Draw(t, "header"),
			Body:      rapid.SampledFrom(bodies).Draw(t, "body"),
			SrvPipe:   rapid.Bool().Draw(t, "srv_pipe"),
			SrvDirect: rapid.Bool().Draw(t, "srv_direct"),
			CtxBuf:    rapid.Bool().Draw(t, "ctx_buf"),
			CliPipe:   rapid.Bool().Draw(t, "cli_pipe"),
			CliDirect: rapid.Bool().Draw(t, "cli_direct"),
			SrvBuf:    rapid.SampledFrom(bufSizes).Draw(t, "srv_buf"),
			CtxCap:    rapid.SampledFrom([]int{0, 0, 8, 64, 4096, 65536, 1 << 20}).Draw(t, "ctx_cap"),
			CliBuf:    rapid.SampledFrom(bufSizes).Draw(t, "cli_buf"),
			SrvSpell:  rapid.SampledFrom([]string{"funcs", "funcs", "names", "both", "listen"}).Draw(t, "srv_spell"),
			CliSpell:  rapid.SampledFrom([]string{"funcs", "funcs", "names", "both", "dial", "transport", "client"}).Draw(t, "cli_spell"),
		}
		if c.real() {
			c.TLS = rapid.IntRange(0, 3).Draw(t, "tls") == 0
			c.Poll = rapid.IntRange(0, 2).Draw(t, "poll") == 0
		}
		c.NoCopy = rapid.IntRange(0, 2).Draw(t, "no_copy") == 0
		// repair instead of reject: keep the draw inside the valid space by construction
		if !(c.Net == "tcp" || c.Net == "unix" || c.Net == "http" || c.Net == "ws") {
			c.Poll = false
		}
		if c.Poll && c.Net == "ws" && !wsPollOn {
			atomic.AddInt64(&excludedWSPoll, 1)
			c.Poll = false
		}
		if !(c.Body == "json" || c.Body == "xml") {
			c.NoCopy = false
		}
		if c.Net == "ws" {
			c.CliPipe = false
			if c.CliSpell == "transport" || c.CliSpell == "client" {
				c.CliSpell = "funcs"
			}
		}
		if c.Net == "frame" {
			c.SrvSpell, c.CliSpell = "funcs", "funcs"
		}
		if !(named[c.Body] && c.real()) {
			if c.SrvSpell != "funcs" {
				c.SrvSpell = "funcs"
			}
			if c.CliSpell == "names" || c.CliSpell == "both" || c.CliSpell == "dial" {
				c.CliSpell = "funcs"
			}
		}
		if c.Header != "default" {
			if c.SrvSpell == "listen" {
				c.SrvSpell = "names"
			}
			if c.CliSpell == "dial" {
				c.CliSpell = "names"
			}
		}
		if c.CliSpell == "dial" {
			c.CliBuf = 0
		}
		if c.valid() {
			return c
		}
	}
}

func genItems(t *rapid.T, cfg Config) []Item {
	n := rapid.IntRange(10, 60).Draw(t, "nitems")
	sizes := []int{0, 10, 63, 64, 65, 1000, 4095, 4097, 65535, 65537, 200000}
	var items []Item
	for i := 0; i < n; i++ {
		k := rapid.IntRange(0, 19).Draw(t, "kind")
		it := Item{Salt: rapid.Uint32().Draw(t, "salt"), Shape: rapid.IntRange(0, 3).Draw(t, "shape"), Form: rapid.SampledFrom([]string{"call", "go", "ctx", "roundtrip"}).Draw(t, "form")}
		it.Size = rapid.SampledFrom(sizes).Draw(t, "size")
		switch {
		case k <= 11:
			it.Kind = "call"
		case k <= 13:
			it.Kind = "fail"
			it.Size = rapid.IntRange(1, 200).Draw(t, "text_len")
		case k == 14:
			it.Kind = "unknown"
		case k <= 16:
			it.Kind = "ping"
		default:
			it.Kind = "stream"
			if it.Size > 70000 {
				it.Size = 4097
			}
		}
		items = append(items, it)
	}
	// a message larger than every configured buffer
	big := 70000
	if cfg.SrvBuf >= 1<<20 || cfg.CliBuf >= 1<<20 {
		big = 1<<20 + 5000
	}
	items = append(items, Item{Kind: "call", Shape: rapid.IntRange(0, 3).Draw(t, "big_shape"), Form: "call", Size: big, Salt: 99})
	return items
}

func gen(t *rapid.T) Case {
	cfg := genConfig(t)
	c := Case{Cfg: cfg, Items: genItems(t, cfg)}
	c.Workers = rapid.SampledFrom([]int{1, 1, 2, 4}).Draw(t, "workers")
	if cfg.Net == "ws" {
		c.Workers = 1
	}
	return c
}

// enum yields a pairwise-style sample of the configuration space (quick) or the product of the
// main dimensions (thorough), each with a fixed compact workload.
func enum(tier string, yield func(Case)) {
	items := []Item{
		{Kind: "call", Shape: 0, Form: "call", Size: 10, Salt: 1}, {Kind: "call", Shape: 1, Form: "go", Size: 4097, Salt: 2},
		{Kind: "fail", Shape: 2, Form: "ctx", Size: 30, Salt: 3}, {Kind: "ping"}, {Kind: "stream", Size: 65, Salt: 4},
		{Kind: "call", Shape: 3, Form: "roundtrip", Size: 65537, Salt: 5}, {Kind: "unknown", Form: "call", Size: 10, Salt: 6},
		{Kind: "stream", Size: 4097, Salt: 7}, {Kind: "call", Shape: 2, Form: "call", Size: 70000, Salt: 8},
	}
	count := 0
	for _, net := range nets {
		for _, tlsOn := range []bool{false, true} {
			for _, hd := range headers {
				for _, body := range bodies {
					for mode := 0; mode < 8; mode++ {
						cfg := Config{Net: net, TLS: tlsOn, Header: hd, Body: body, SrvSpell: "funcs", CliSpell: "funcs"}
						cfg.Poll = mode&1 != 0
						cfg.SrvPipe = mode&2 != 0
						cfg.SrvDirect = mode&4 != 0
						cfg.CliDirect = mode&4 != 0
						cfg.CliPipe = mode&2 != 0 && net != "ws"
						cfg.CtxBuf = mode == 3 || mode == 5
						cfg.NoCopy = (body == "json" || body == "xml") && mode == 6
						cfg.CtxCap = []int{0, 64, 4096, 0, 1 << 20}[count%5]
						cfg.SrvBuf = bufSizes[(count)%len(bufSizes)]
						cfg.CliBuf = bufSizes[(count/2)%len(bufSizes)]
						// cycle the spellings where they are available
						if named[body] && cfg.real() {
							cfg.SrvSpell = []string{"funcs", "names", "both", "listen"}[count%4]
							cfg.CliSpell = []string{"funcs", "names", "both", "dial", "transport", "client"}[count%6]
							if hd != "default" {
								if cfg.SrvSpell == "listen" {
									cfg.SrvSpell = "names"
								}
								if cfg.CliSpell == "dial" {
									cfg.CliSpell = "both"
								}
							}
							if cfg.CliSpell == "dial" {
								cfg.CliBuf = 0
							}
						} else if net != "frame" {
							cfg.CliSpell = []string{"funcs", "transport", "client"}[count%3]
						}
						if net == "ws" && (cfg.CliSpell == "transport" || cfg.CliSpell == "client") {
							cfg.CliSpell = "funcs"
						}
						count++
						if cfg.Poll && net == "ws" && !wsPollOn {
							atomic.AddInt64(&excludedWSPoll, 1)
							continue
						}
						if !cfg.valid() {
							continue
						}
						if tier != "thorough" && count%9 != 0 {
							continue
						}
						w := 1
						if net != "ws" && count%2 == 0 {
							w = 3
						}
						yield(Case{Cfg: cfg, Items: items, Workers: w})
					}
				}
			}
		}
	}
}

const bound = 10 * time.Second

var portSeq int64

// wsPollOn is a development switch: include ws+poll configurations (known finding K2) in the search.
var wsPollOn = os.Getenv("VERIF_C12_WSPOLL") != ""

// excludedWSPoll counts configurations dropped because of the known finding (ws with poll).
var excludedWSPoll int64

func freshAddr(network string) string {
	n := atomic.AddInt64(&portSeq, 1)
	switch network {
	case "unix":
		return kit.SockPath()
	case "inproc":
		return fmt.Sprintf("inproc-%d-%d", os.Getpid(), n)
	case "mem":
		return fmt.Sprintf("mem-%d", n)
	}
	// a port the kernel considers free right now (the library listens with SO_REUSEPORT, so a
	// guessed port could silently be shared with another process; see the identity probe below)
	if l, err := net.Listen("tcp", "127.0.0.1:0"); err == nil {
		a := l.Addr().String()
		l.Close()
		return a
	}
	port := 20000 + (os.Getpid()%40)*1000 + int(n%1000)
	return fmt.Sprintf("127.0.0.1:%d", port)
}

func otherSocket(net string) func(*tls.Config) socket.Socket {
	// a constructor that must LOSE against the registered name
	if net == "unix" {
		return socket.NewTCPSocket
	}
	return socket.NewUNIXSocket
}

func headerFunc(h string) func() rpc.Encoder {
	switch h {
	case "pb":
		return rpc.NewPBEncoder
	case "code":
		return rpc.NewCODEEncoder
	case "json":
		return rpc.NewJSONEncoder
	}
	return nil
}

// options builds the Options of one end according to its spelling.
func options(c Config, spell string, mem *kit.Net, client bool) *rpc.Options {
	o := &rpc.Options{}
	if client {
		o.ClientBufferSize = c.CliBuf
	}
	sock := func() func(*tls.Config) socket.Socket {
		if c.Net == "mem" {
			return mem.NewSocket
		}
		return rpc.NewSocket(c.Net)
	}
	switch spell {
	case "names":
		o.Network, o.Codec = c.Net, c.Body
		if c.Header != "default" {
			o.HeaderEncoder = c.Header
		}
	case "both":
		// every registered name is accompanied by a different constructor: the name must win
		o.Network, o.NewSocket = c.Net, otherSocket(c.Net)
		o.Codec = c.Body
		if c.Body == "json" {
			o.NewCodec = newCodec("xml")
		} else {
			o.NewCodec = newCodec("json")
		}
		if c.Header != "default" {
			o.HeaderEncoder = c.Header
			if c.Header == "json" {
				o.NewHeaderEncoder = rpc.NewCODEEncoder
			} else {
				o.NewHeaderEncoder = rpc.NewJSONEncoder
			}
		}
	default: // funcs (also transport / client spellings)
		o.NewSocket = sock()
		o.NewCodec = newCodec(c.Body)
		o.NewHeaderEncoder = headerFunc(c.Header)
	}
	if c.TLS {
		if client {
			o.TLSConfig = rpc.SkipVerifyTLSConfig()
		} else {
			o.TLSConfig = rpc.DefalutServerTLSConfig()
		}
	}
	return o
}

// caller abstracts the client end (Conn, Transport or Client).
type caller struct {
	call      func(method string, args, reply interface{}) error
	goCall    func(method string, args, reply interface{}) error
	ctxCall   func(method string, args, reply interface{}) error
	roundTrip func(method string, args, reply interface{}) error
	ping      func() error
	newStream func(method string) (rpc.Stream, error)
	close     func()
}

type outcome struct {
	res string
}

// runOn runs the workload on one configuration and returns the transcript.
func runOn(c Config, items []Item, workers int) (map[int]string, []string, string) {
	w := &world{}
	srv := rpc.NewServer()
	srv.SetLogLevel(rpc.OffLogLevel)
	if err := register(srv, c.Body, w); err != nil {
		return nil, nil, err.Error()
	}
	srv.SetPipelining(c.SrvPipe)
	srv.SetDirectIO(c.SrvDirect)
	srv.SetContextBuffer(c.CtxBuf)
	srv.SetNoCopy(c.NoCopy)
	srv.SetPoll(c.Poll)
	if c.SrvBuf > 0 {
		srv.SetBufferSize(c.SrvBuf)
	}
	var cl caller
	var stopServer func()
	if c.Net == "frame" {
		link := kit.NewFrameLink()
		done := make(chan struct{})
		codec := rpc.NewServerCodec(newCodec(c.Body)(), kit.HeaderEncoder(c.Header), link.S, c.SrvDirect, c.SrvBuf)
		go func() { srv.ServeCodec(codec); close(done) }()
		conn := rpc.NewConnWithCodec(rpc.NewClientCodec(newCodec(c.Body)(), kit.HeaderEncoder(c.Header), link.C, c.CliBuf))
		cl = connCaller(conn, c)
		stopServer = func() {
			select {
			case <-done:
			case <-time.After(5 * time.Second):
			}
		}
	} else {
		var mem *kit.Net
		if c.Net == "mem" {
			mem = kit.NewNet()
		}
		var lastErr string
		connected := false
		for attempt := 0; attempt < 6 && !connected; attempt++ {
			addr := freshAddr(c.Net)
			lis := make(chan error, 1)
			lisDone := make(chan struct{})
			go func() {
				defer close(lisDone)
				switch c.SrvSpell {
				case "listen":
					if c.TLS {
						lis <- srv.ListenTLS(c.Net, addr, c.Body, rpc.DefalutServerTLSConfig())
					} else {
						lis <- srv.Listen(c.Net, addr, c.Body)
					}
				default:
					lis <- srv.ListenWithOptions(addr, options(c, c.SrvSpell, mem, false))
				}
			}()
			stopServer = func() {
				srv.Close()
				// also for poll-mode servers (about a second): a netpoll server that is still
				// winding down has workers that may touch descriptor numbers the next case's
				// sockets have reused (observed: first Ping of the next configuration never answered)
				select {
				case <-lisDone:
				case <-time.After(8 * time.Second):
				}
				if c.Net == "unix" {
					os.Remove(addr)
				}
			}
			// connect (retrying until the listener is up)
			var err error
			deadline := time.Now().Add(5 * time.Second)
			listenFailed := false
			for {
				select {
				case e := <-lis:
					lastErr = fmt.Sprintf("server could not listen on %s: %v", addr, e)
					listenFailed = true
				default:
				}
				if listenFailed {
					break
				}
				// every wait of the harness is bounded: a dial or first ping that hangs is reported
				type dialRes struct {
					cl  caller
					err error
				}
				dc := make(chan dialRes, 1)
				go func() {
					cl, err := dialCaller(c, addr, mem)
					if err == nil {
						if err = cl.ping(); err != nil {
							cl.close()
						}
					}
					dc <- dialRes{cl, err}
				}()
				select {
				case r := <-dc:
					cl, err = r.cl, r.err
				case <-time.After(bound):
					go stopServer()
					return nil, nil, fmt.Sprintf("dialing %s and a first Ping did not return within %v", addr, bound)
				}
				if err == nil {
					// identity probe: the server we reached must be ours (its world logs the nonce)
					nonce := uint64(1)<<60 | uint64(time.Now().UnixNano()&0xffffffffff)
					a, r, _ := pack(c.Body, Core{ID: nonce, Text: "probe"})
					pc := make(chan error, 1)
					go func() { pc <- cl.call("M.Echo", a, r) }()
					select {
					case perr := <-pc:
						mine := false
						w.mu.Lock()
						for _, e := range w.execs {
							if e.ID == nonce {
								mine = true
							}
						}
						w.execs = nil
						w.mu.Unlock()
						if perr == nil && mine {
							connected = true
						} else {
							lastErr = fmt.Sprintf("identity probe on %s failed (err %v, reached our server: %v)", addr, perr, mine)
							cl.close()
							stopServer()
							listenFailed = true
						}
					case <-time.After(bound):
						go stopServer()
						return nil, nil, fmt.Sprintf("identity probe on %s did not return within %v", addr, bound)
					}
					break
				}
				if time.Now().After(deadline) {
					stopServer()
					return nil, nil, fmt.Sprintf("client could not connect to %s: %v", addr, err)
				}
				time.Sleep(2 * time.Millisecond)
			}
		}
		if !connected {
			return nil, nil, lastErr
		}
	}
	defer func() {
		done := make(chan struct{})
		go func() { cl.close(); stopServer(); close(done) }()
		select {
		case <-done:
		case <-time.After(bound):
		}
	}()
	// run the workload
	results := map[int]string{}
	var rmu sync.Mutex
	set := func(i int, s string) {
		rmu.Lock()
		results[i] = s
		rmu.Unlock()
	}
	var undecided string
	doItem := func(i int, it Item) {
		rmu.Lock()
		stop := undecided != ""
		rmu.Unlock()
		if stop {
			return
		}
		id := uint64(i + 1)
		core := Core{ID: id, Text: fmt.Sprintf("t%d", id)}
		alphabet := c.Body == "xml" || reference.Body == "xml"
		_ = alphabet
		// content is restricted to [a-z0-9] so that every body codec (xml included) can carry it
		core.Data = []byte(kit.MakeText("ascii", it.Size, it.Salt))
		for k, b := range core.Data {
			core.Data[k] = "abcdefghijklmnopqrstuvwxyz0123456789"[int(b)%36]
		}
		method := shapes[it.Shape%4]
		switch it.Kind {
		case "fail":
			core.Dir = dirFail
			core.Text = string(core.Data)
			core.Data = nil
		case "unknown":
			method = "M.Nope"
		}
		rc := make(chan error, 1)
		args, reply, get := pack(c.Body, core)
		go func() {
			switch it.Kind {
			case "ping":
				rc <- cl.ping()
			default:
				switch it.Form {
				case "go":
					rc <- cl.goCall(method, args, reply)
				case "ctx":
					rc <- cl.ctxCall(method, args, reply)
				case "roundtrip":
					rc <- cl.roundTrip(method, args, reply)
				default:
					rc <- cl.call(method, args, reply)
				}
			}
		}()
		select {
		case err := <-rc:
			switch {
			case err != nil:
				set(i, "err:"+err.Error())
			case it.Kind == "ping":
				set(i, "ok:ping")
			default:
				out, gerr := get()
				if gerr != nil {
					set(i, "badreply:"+gerr.Error())
				} else {
					set(i, fmt.Sprintf("ok:%x", out.digest()))
				}
			}
		case <-time.After(bound):
			rmu.Lock()
			undecided = fmt.Sprintf("item %d (%s %s via %s, %d bytes) did not complete within %v", i, it.Kind, it.Form, method, it.Size, bound)
			rmu.Unlock()
		}
	}
	// stream items run in order on one stream in their own goroutine
	var streamIdx []int
	var other []int
	for i, it := range items {
		if it.Kind == "stream" {
			streamIdx = append(streamIdx, i)
		} else {
			other = append(other, i)
		}
	}
	var wg sync.WaitGroup
	runStream := func() {
		defer wg.Done()
		if len(streamIdx) == 0 {
			return
		}
		sc := make(chan rpc.Stream, 1)
		ec := make(chan error, 1)
		go func() {
			st, err := cl.newStream("M.Stream")
			if err != nil {
				ec <- err
				return
			}
			sc <- st
		}()
		var st rpc.Stream
		select {
		case st = <-sc:
		case err := <-ec:
			for _, i := range streamIdx {
				set(i, "err:"+err.Error())
			}
			return
		case <-time.After(bound):
			rmu.Lock()
			undecided = "NewStream did not return"
			rmu.Unlock()
			return
		}
		defer func() { go st.Close() }()
		for _, i := range streamIdx {
			it := items[i]
			core := Core{ID: uint64(i + 1), Text: fmt.Sprintf("s%d", i)}
			core.Data = []byte(kit.MakeText("ascii", it.Size, it.Salt))
			for k, b := range core.Data {
				core.Data[k] = "abcdefghijklmnopqrstuvwxyz0123456789"[int(b)%36]
			}
			args, reply, get := pack(c.Body, core)
			rc := make(chan error, 1)
			go func() {
				if err := st.WriteMessage(args); err != nil {
					rc <- err
					return
				}
				rc <- st.ReadMessage(nil, reply)
			}()
			select {
			case err := <-rc:
				if err != nil {
					set(i, "err:"+err.Error())
					continue
				}
				out, gerr := get()
				if gerr != nil {
					set(i, "badreply:"+gerr.Error())
				} else {
					set(i, fmt.Sprintf("ok:%x", out.digest()))
				}
			case <-time.After(bound):
				rmu.Lock()
				undecided = fmt.Sprintf("stream item %d did not complete", i)
				rmu.Unlock()
				return
			}
		}
	}
	wg.Add(1)
	if workers <= 1 {
		// strictly sequential: stream rounds are interleaved in item order
		wg.Done()
		var st rpc.Stream
		for i, it := range items {
			if undecided != "" {
				break
			}
			if it.Kind != "stream" {
				doItem(i, it)
				continue
			}
			if st == nil {
				type sres struct {
					st  rpc.Stream
					err error
				}
				sc := make(chan sres, 1)
				go func() {
					st, err := cl.newStream("M.Stream")
					sc <- sres{st, err}
				}()
				select {
				case r := <-sc:
					if r.err != nil {
						set(i, "err:"+r.err.Error())
						continue
					}
					st = r.st
				case <-time.After(bound):
					undecided = "NewStream did not return"
					continue
				}
			}
			core := Core{ID: uint64(i + 1), Text: fmt.Sprintf("s%d", i)}
			core.Data = []byte(kit.MakeText("ascii", it.Size, it.Salt))
			for k, b := range core.Data {
				core.Data[k] = "abcdefghijklmnopqrstuvwxyz0123456789"[int(b)%36]
			}
			args, reply, get := pack(c.Body, core)
			rc := make(chan error, 1)
			go func() {
				if err := st.WriteMessage(args); err != nil {
					rc <- err
					return
				}
				rc <- st.ReadMessage(nil, reply)
			}()
			select {
			case err := <-rc:
				if err != nil {
					set(i, "err:"+err.Error())
				} else if out, gerr := get(); gerr != nil {
					set(i, "badreply:"+gerr.Error())
				} else {
					set(i, fmt.Sprintf("ok:%x", out.digest()))
				}
			case <-time.After(bound):
				undecided = fmt.Sprintf("stream item %d did not complete", i)
			}
		}
		if st != nil {
			go st.Close()
		}
	} else {
		go runStream()
		ch := make(chan int, len(other))
		for _, i := range other {
			ch <- i
		}
		close(ch)
		for k := 0; k < workers; k++ {
			wg.Add(1)
			go func() {
				defer wg.Done()
				for i := range ch {
					doItem(i, items[i])
				}
			}()
		}
		wg.Wait()
	}
	// handler executions as a sorted multiset
	time.Sleep(time.Millisecond)
	w.mu.Lock()
	var ex []string
	for _, e := range w.execs {
		ex = append(ex, fmt.Sprintf("%d/%s/%x", e.ID, e.Method, e.Digest[:6]))
	}
	w.mu.Unlock()
	sort.Strings(ex)
	return results, ex, undecided
}

// callCtx returns the context of a CallWithContext call: with a caller-supplied buffer of the
// configured capacity (a fresh one per call), or without.
func callCtx(c Config) context.Context {
	if c.CtxCap <= 0 {
		return context.Background()
	}
	return context.WithValue(context.Background(), rpc.BufferContextKey, make([]byte, 0, c.CtxCap))
}

func connCaller(conn *rpc.Conn, c Config) caller {
	if c.CliPipe {
		conn.SetPipelining(true)
	}
	conn.SetDirectIO(c.CliDirect)
	return caller{
		call: func(m string, a, r interface{}) error { return conn.Call(m, a, r) },
		goCall: func(m string, a, r interface{}) error {
			call := conn.Go(m, a, r, make(chan *rpc.Call, 1))
			<-call.Done
			return call.Error
		},
		ctxCall: func(m string, a, r interface{}) error { return conn.CallWithContext(callCtx(c), m, a, r) },
		roundTrip: func(m string, a, r interface{}) error {
			call := conn.RoundTrip(&rpc.Call{ServiceMethod: m, Args: a, Reply: r, Done: make(chan *rpc.Call, 1)})
			<-call.Done
			return call.Error
		},
		ping:      conn.Ping,
		newStream: conn.NewStream,
		close:     func() { conn.Close() },
	}
}

func dialCaller(c Config, addr string, mem *kit.Net) (caller, error) {
	switch c.CliSpell {
	case "dial":
		var conn *rpc.Conn
		var err error
		if c.TLS {
			conn, err = rpc.DialTLS(c.Net, addr, c.Body, rpc.SkipVerifyTLSConfig())
		} else {
			conn, err = rpc.Dial(c.Net, addr, c.Body)
		}
		if err != nil {
			return caller{}, err
		}
		return connCaller(conn, c), nil
	case "transport":
		tr := &rpc.Transport{Options: options(c, "funcs", mem, true), MaxConnsPerHost: 1}
		return caller{
			call: func(m string, a, r interface{}) error { return tr.Call(addr, m, a, r) },
			goCall: func(m string, a, r interface{}) error {
				call := tr.Go(addr, m, a, r, make(chan *rpc.Call, 1))
				<-call.Done
				return call.Error
			},
			ctxCall: func(m string, a, r interface{}) error {
				return tr.CallWithContext(callCtx(c), addr, m, a, r)
			},
			roundTrip: func(m string, a, r interface{}) error {
				call := tr.RoundTrip(addr, &rpc.Call{ServiceMethod: m, Args: a, Reply: r, Done: make(chan *rpc.Call, 1)})
				<-call.Done
				return call.Error
			},
			ping:      func() error { return tr.Ping(addr) },
			newStream: func(m string) (rpc.Stream, error) { return tr.NewStream(addr, m) },
			close:     func() { tr.Close() },
		}, nil
	case "client":
		client := rpc.NewClient(options(c, "funcs", mem, true), addr)
		client.DialTimeout = 3 * time.Second
		return caller{
			call: func(m string, a, r interface{}) error { return client.Call(m, a, r) },
			goCall: func(m string, a, r interface{}) error {
				call := client.Go(m, a, r, make(chan *rpc.Call, 1))
				<-call.Done
				return call.Error
			},
			ctxCall: func(m string, a, r interface{}) error {
				return client.CallWithContext(callCtx(c), m, a, r)
			},
			roundTrip: func(m string, a, r interface{}) error {
				call := client.RoundTrip(&rpc.Call{ServiceMethod: m, Args: a, Reply: r, Done: make(chan *rpc.Call, 1)})
				<-call.Done
				return call.Error
			},
			ping:      client.Ping,
			newStream: client.NewStream,
			close:     func() { client.Close() },
		}, nil
	}
	conn, err := rpc.DialWithOptions(addr, options(c, c.CliSpell, mem, true))
	if err != nil {
		return caller{}, err
	}
	return connCaller(conn, c), nil
}

func run(c Case) kit.Outcome {
	if !c.Cfg.valid() || len(c.Items) == 0 || len(c.Items) > 500 || c.Workers < 1 || c.Workers > 16 || (c.Cfg.Net == "ws" && c.Workers != 1) {
		return kit.Outcome{Invalid: true}
	}
	maxSize := 0
	for _, it := range c.Items {
		switch it.Kind {
		case "call", "fail", "unknown", "ping", "stream":
		default:
			return kit.Outcome{Invalid: true}
		}
		if it.Size < 0 || it.Size > 4<<20 || it.Shape < 0 || it.Shape > 3 || (it.Kind == "fail" && it.Size == 0) {
			return kit.Outcome{Invalid: true}
		}
		if it.Size > maxSize {
			maxSize = it.Size
		}
	}
	refRes, refEx, u := runOn(reference, c.Items, c.Workers)
	if u != "" {
		return kit.Undecided("reference configuration: %s", u)
	}
	sig := fmt.Sprintf("net=%s tls=%v header=%s body=%s poll=%v srv=%s cli=%s", c.Cfg.Net, c.Cfg.TLS, c.Cfg.Header, c.Cfg.Body, c.Cfg.Poll, c.Cfg.SrvSpell, c.Cfg.CliSpell)
	res, ex, u := runOn(c.Cfg, c.Items, c.Workers)
	if u != "" {
		// the reference configuration completed the same workload: not completing it here is a
		// different outcome (wall-clock bound, so it must reproduce in isolation)
		o := kit.Fail("outcome-differs", "the workload completes on the reference configuration but not on this one (%s): %s", sig, u)
		o.Sig, o.Timing = sig, true
		return o
	}
	for i, it := range c.Items {
		if res[i] != refRes[i] {
			o := kit.Fail("outcome-differs", "item %d (%s %s, %d bytes) has outcome %q under this configuration and %q under the reference configuration", i, it.Kind, it.Form, it.Size, cut(res[i]), cut(refRes[i]))
			o.Sig = sig
			return o
		}
	}
	if len(ex) != len(refEx) {
		o := kit.Fail("executions-differ", "%d handler executions under this configuration, %d under the reference configuration", len(ex), len(refEx))
		o.Sig = sig
		return o
	}
	for i := range ex {
		if ex[i] != refEx[i] {
			o := kit.Fail("executions-differ", "handler executions differ: %s vs reference %s", ex[i], refEx[i])
			o.Sig = sig
			return o
		}
	}
	// the reference itself must be sane: ok items succeeded
	for i, it := range c.Items {
		if (it.Kind == "call" || it.Kind == "ping" || it.Kind == "stream") && len(refRes[i]) < 3 || (it.Kind == "call" && refRes[i][:3] != "ok:") {
			return kit.Undecided("reference configuration failed item %d: %s", i, cut(refRes[i]))
		}
	}
	dims := 0
	if c.Cfg.Net != reference.Net {
		dims++
	}
	if c.Cfg.Header != reference.Header {
		dims++
	}
	if c.Cfg.Body != reference.Body {
		dims++
	}
	for _, b := range []bool{c.Cfg.TLS, c.Cfg.Poll, c.Cfg.SrvPipe, c.Cfg.SrvDirect, c.Cfg.CtxBuf, c.Cfg.NoCopy, c.Cfg.CliPipe, c.Cfg.CliDirect, c.Cfg.SrvBuf != 0, c.Cfg.CliBuf != 0, c.Cfg.CtxCap != 0} {
		if b {
			dims++
		}
	}
	out := kit.Outcome{Classes: []string{"net=" + c.Cfg.Net, "body=" + c.Cfg.Body, "header=" + c.Cfg.Header, "srv=" + c.Cfg.SrvSpell, "cli=" + c.Cfg.CliSpell}}
	out.Counters = map[string]int{"excluded_known_finding_ws_with_poll": int(atomic.SwapInt64(&excludedWSPoll, 0))}
	smallest := 65536
	for _, b := range []int{c.Cfg.SrvBuf, c.Cfg.CliBuf, c.Cfg.CtxCap} {
		if b > 0 && b < smallest {
			smallest = b
		}
	}
	if dims >= 2 && maxSize > smallest {
		out.Nontrivial = true
	}
	if c.Cfg.TLS {
		out.Classes = append(out.Classes, "tls")
	}
	if c.Cfg.Poll {
		out.Classes = append(out.Classes, "poll")
	}
	if c.Cfg.NoCopy {
		out.Classes = append(out.Classes, "nocopy")
	}
	if c.Workers > 1 {
		out.Classes = append(out.Classes, "concurrent-workload")
	}
	return out
}

func cut(s string) string {
	if len(s) > 120 {
		return s[:120] + "..."
	}
	return s
}

var prop = kit.Property[Case]{
	ID:    "C12",
	Level: "exploration",
	Rule:  "rapid-generated (workload, configuration) pairs plus an enumerated sample of the configuration space: network in {frame link, in-memory byte link, inproc, tcp, unix, http, ws} x TLS x header encoder in {default, pb, code, json} x body codec in {json, xml, code, pb, msgp, bytes} (typed message per codec) x server {poll, pipelining, direct IO, context buffer, NoCopy for json/xml} x client {pipelining, direct IO} x buffer sizes {default, 64, 4096, 65536, 1 MiB} on both ends x caller-supplied context buffer {none, 8, 64, 4096, 65536, 1 MiB} x how each end names its choice (Listen/Dial by name, Options with registered names, with constructor functions, with both where the name must win, Transport, Client). Workload: 10-60 items (calls to all four handler shapes in every call form, failing calls, unknown methods, pings, rounds on an echo stream; sizes 0..200 KB and one message larger than every configured buffer), sequential or from 2-4 workers (ws: sequential only). Oracle: the transcript - per item outcome class and reply digest or error text, plus the sorted multiset of handler executions (id, method, argument digest) - equals the transcript of the same workload on the reference configuration (frame link, default header, json body, no modes). Non-trivial: the configuration differs from the reference in >= 2 dimensions and the workload contains a message larger than the smallest configured buffer; distinct by SHA-1 of the case.",
	Assumptions: []string{
		"message content is restricted to [a-z0-9] so that xml can carry it; xml/msgp/bytes have no registered name and are always given as constructor functions",
		"NoCopy is combined only with non-aliasing codecs (json, xml) and non-retaining handlers, ws only with one call at a time (the property's provisos)",
		"TLS uses the certificates embedded in the library with verification skipped on the client",
		"Conn.SetBufferSize is not called on dialed real sockets (it can block forever, DESIGN.md section 8); Options.ClientBufferSize / Server.SetBufferSize are used",
	},
	Gen:  gen,
	Enum: enum,
	Run:  run,
}

func TestProperty(t *testing.T) { kit.Check(t, prop) }
