package c20

import (
	"context"
	"fmt"
	"sync"
	"sync/atomic"
	"testing"
	"time"

	"github.com/hslam/rpc"
	"pgregory.net/rapid"
	"verif/harness/kit"
)

// Case describes participants, what they are doing when closing starts, and the closing order.
type Case struct {
	Enc        string `json:"enc"`
	Servers    int    `json:"servers"`     // 1-3 non-poll servers
	Conns      int    `json:"conns"`       // plain Conns dialed to server 0..
	UseTrans   bool   `json:"use_transport"`
	UseClient  bool   `json:"use_client"`
	InFlight   int    `json:"in_flight"`    // gated calls outstanding per Conn
	Streams    int    `json:"streams"`      // open streams with blocked readers per Conn
	TransCalls int    `json:"trans_calls"`  // gated calls outstanding through the Transport
	Waiters    int    `json:"waiters"`      // Client callers waiting for a target (server down)
	DownServer int    `json:"down_server"`  // -1: none; this server is down before closing (Client waits on it)
	Recover    bool   `json:"recover"`      // the down server comes up while the Client is being closed
	RecoverUS  int    `json:"recover_us"`   // delay between restart and Client.Close (may be 0)
	Order      []int  `json:"order"`        // permutation over participants: 0..Servers-1 servers, then conns, then transport, then client
	Repeat     []int  `json:"repeat"`       // how often each participant is closed (1-3)
	Concurrent bool   `json:"concurrent"`   // close everything concurrently instead of in order
	WaitMS     int    `json:"wait_ms"`      // how long callers wait / detector runs before closing
	DialStorm  int    `json:"dial_storm,omitempty"` // goroutines that keep connecting (and leaving at once) while everything is being closed
}

func gen(t *rapid.T) Case {
	c := Case{
		Enc:        rapid.SampledFrom(kit.Encoders).Draw(t, "enc"),
		Servers:    rapid.IntRange(1, 3).Draw(t, "servers"),
		Conns:      rapid.IntRange(0, 3).Draw(t, "conns"),
		UseTrans:   rapid.Bool().Draw(t, "use_transport"),
		UseClient:  rapid.Bool().Draw(t, "use_client"),
		InFlight:   rapid.IntRange(0, 3).Draw(t, "in_flight"),
		Streams:    rapid.IntRange(0, 2).Draw(t, "streams"),
		TransCalls: rapid.IntRange(0, 3).Draw(t, "trans_calls"),
		DownServer: -1,
		Concurrent: rapid.Bool().Draw(t, "concurrent"),
		WaitMS:     rapid.SampledFrom([]int{0, 5, 60, 130}).Draw(t, "wait_ms"),
	}
	if c.UseClient {
		if rapid.IntRange(0, 2).Draw(t, "down") > 0 {
			c.DownServer = rapid.IntRange(0, c.Servers-1).Draw(t, "down_server")
			c.Waiters = rapid.IntRange(0, 3).Draw(t, "waiters")
			c.Recover = rapid.Bool().Draw(t, "recover")
			c.RecoverUS = rapid.SampledFrom([]int{0, 0, 50, 300, 2000, 90000, 101000}).Draw(t, "recover_us")
		}
	}
	n := c.Servers + c.Conns
	if c.UseTrans {
		n++
	}
	if c.UseClient {
		n++
	}
	if rapid.IntRange(0, 2).Draw(t, "dial_storm") == 0 {
		c.DialStorm = rapid.IntRange(1, 4).Draw(t, "storm_goroutines")
	}
	c.Order = rapid.Permutation(seq(n)).Draw(t, "order")
	for i := 0; i < n; i++ {
		c.Repeat = append(c.Repeat, rapid.IntRange(1, 3).Draw(t, "repeat"))
	}
	return c
}

func seq(n int) []int {
	s := make([]int, n)
	for i := range s {
		s[i] = i
	}
	return s
}

const bound = 10 * time.Second

var worldSeq int64

func run(c Case) kit.Outcome {
	if (c.Enc != "default" && kit.HeaderEncoder(c.Enc) == nil) || c.Servers < 1 || c.Servers > 4 || c.Conns < 0 || c.Conns > 6 ||
		c.InFlight < 0 || c.InFlight > 8 || c.Streams < 0 || c.Streams > 4 || c.TransCalls < 0 || c.TransCalls > 8 || c.Waiters < 0 || c.Waiters > 8 ||
		c.DownServer < -1 || c.DownServer >= c.Servers || c.RecoverUS < 0 || c.RecoverUS > 500000 || c.WaitMS < 0 || c.WaitMS > 1000 {
		return kit.Outcome{Invalid: true}
	}
	n := c.Servers + c.Conns
	if c.UseTrans {
		n++
	}
	if c.UseClient {
		n++
	}
	if len(c.Order) != n || len(c.Repeat) != n {
		return kit.Outcome{Invalid: true}
	}
	seen := map[int]bool{}
	for i, o := range c.Order {
		if o < 0 || o >= n || seen[o] || c.Repeat[i] < 1 || c.Repeat[i] > 3 {
			return kit.Outcome{Invalid: true}
		}
		seen[o] = true
	}
	if !c.UseClient && (c.DownServer >= 0 || c.Waiters > 0) {
		return kit.Outcome{Invalid: true}
	}
	before := kit.LibraryGoroutines()
	net := kit.NewNet()
	m := kit.Modes{Enc: c.Enc, Link: "bytes"}
	opts := m.Options(net)
	wid := atomic.AddInt64(&worldSeq, 1)
	var hist []string
	var hmu sync.Mutex
	h := func(f string, a ...interface{}) {
		hmu.Lock()
		hist = append(hist, fmt.Sprintf(f, a...))
		hmu.Unlock()
	}
	fail := func(o kit.Outcome) kit.Outcome { o.History = hist; return o }

	envs := make([]*kit.Env, c.Servers)
	srvs := make([]*rpc.Server, c.Servers)
	addrs := make([]string, c.Servers)
	lisRet := make([]chan error, c.Servers)
	startServer := func(i int) bool {
		srvs[i] = kit.NewServer(envs[i], false, false)
		ch := make(chan error, 1)
		lisRet[i] = ch
		srv := srvs[i]
		go func() { ch <- srv.ListenWithOptions(addrs[i], opts) }()
		if !net.WaitListening(addrs[i], 5*time.Second) {
			return false
		}
		// "listening" on the network precedes the Server's own bookkeeping of its listener by a few
		// instructions; a Server.Close in that window finds nothing to close. A served round trip
		// proves the accept loop runs, which is what a user can observe before calling Close.
		pc, err := rpc.DialWithOptions(addrs[i], opts)
		if err != nil {
			return false
		}
		perr := pc.Ping()
		pc.Close()
		return perr == nil
	}
	for i := 0; i < c.Servers; i++ {
		envs[i] = kit.NewEnv()
		addrs[i] = fmt.Sprintf("c20-%d-%d", wid, i)
		if i == c.DownServer {
			continue
		}
		if !startServer(i) {
			return kit.Undecided("server %d did not start", i)
		}
	}
	cleanupEnvs := func() {
		for _, e := range envs {
			e.OpenAll()
		}
	}
	defer cleanupEnvs()
	// plain connections with calls in flight and streams with blocked readers
	var userWG sync.WaitGroup // harness goroutines blocked inside the library
	conns := make([]*rpc.Conn, 0, c.Conns)
	nextID := uint64(0)
	for k := 0; k < c.Conns; k++ {
		si := k % c.Servers
		if si == c.DownServer {
			si = (si + 1) % c.Servers
			if si == c.DownServer {
				continue
			}
		}
		conn, err := rpc.DialWithOptions(addrs[si], opts)
		if err != nil {
			return kit.Undecided("dial: %v", err)
		}
		conns = append(conns, conn)
		var ids []uint64
		for j := 0; j < c.InFlight; j++ {
			nextID++
			id := nextID
			ids = append(ids, id)
			args := kit.MakePayload(id, kit.DirGate, 1, 40)
			var reply []byte
			userWG.Add(1)
			go func() {
				defer userWG.Done()
				if j%2 == 0 {
					conn.Call("S.Echo", &args, &reply)
				} else {
					conn.CallWithContext(context.Background(), "S.EchoCtx", &args, &reply)
				}
			}()
		}
		envs[si].WaitStartedIDs(ids, 2*time.Second)
		for j := 0; j < c.Streams; j++ {
			sc := make(chan rpc.Stream, 1)
			go func() {
				st, _ := conn.NewStream("S.Stream")
				sc <- st
			}()
			select {
			case st := <-sc:
				if st != nil {
					userWG.Add(1)
					go func() {
						defer userWG.Done()
						var m []byte
						st.ReadMessage(nil, &m)
					}()
				}
			case <-time.After(bound):
				return kit.Undecided("NewStream did not return")
			}
		}
	}
	var tr *rpc.Transport
	if c.UseTrans {
		tr = &rpc.Transport{Options: opts, MaxConnsPerHost: 2, MaxIdleConnsPerHost: 2, KeepAlive: 20 * time.Millisecond, IdleConnTimeout: 40 * time.Millisecond}
		rpc.VerifSetTransportTick(tr, 2*time.Millisecond)
		var ids []uint64
		si := 0
		if si == c.DownServer {
			si = (si + 1) % c.Servers
		}
		if si != c.DownServer {
			for j := 0; j < c.TransCalls; j++ {
				nextID++
				id := nextID
				ids = append(ids, id)
				args := kit.MakePayload(id, kit.DirGate, 1, 40)
				var reply []byte
				userWG.Add(1)
				go func() {
					defer userWG.Done()
					tr.Call(addrs[si], "S.Echo", &args, &reply)
				}()
			}
			envs[si].WaitStartedIDs(ids, 2*time.Second)
			// and one idle pooled connection
			var reply []byte
			args := kit.MakePayload(9000, kit.DirEcho, 1, 20)
			tr.Call(addrs[si], "S.EchoRet", &args, &reply)
		}
	}
	var client *rpc.Client
	waitersReturned := make(chan error, 16)
	if c.UseClient {
		targets := addrs
		if c.DownServer >= 0 && c.Waiters > 0 {
			targets = []string{addrs[c.DownServer]} // nothing is live: callers wait
		}
		client = rpc.NewClient(opts, targets...)
		client.DialTimeout = 30 * time.Second
		if ctr, ok := client.Transport.(*rpc.Transport); ok {
			rpc.VerifSetTransportTick(ctr, 2*time.Millisecond)
		}
		for j := 0; j < c.Waiters; j++ {
			userWG.Add(1)
			go func() {
				defer userWG.Done()
				args := kit.MakePayload(8000+uint64(j), kit.DirEcho, 1, 20)
				var reply []byte
				if j%2 == 0 {
					waitersReturned <- client.Call("S.Echo", &args, &reply)
				} else {
					call := client.Go("S.Echo", &args, &reply, make(chan *rpc.Call, 1))
					<-call.Done
					waitersReturned <- call.Error
				}
			}()
		}
		if c.DownServer < 0 || c.Waiters == 0 {
			// some ordinary traffic so that connections are pooled
			var reply []byte
			args := kit.MakePayload(9100, kit.DirEcho, 1, 20)
			rc := make(chan error, 1)
			go func() { rc <- client.Call("S.EchoRet", &args, &reply) }()
			select {
			case <-rc:
			case <-time.After(2 * time.Second):
			}
		}
	}
	time.Sleep(time.Duration(c.WaitMS) * time.Millisecond)
	h("%d servers (down: %d), %d conns with %d calls in flight and %d streams each, transport=%v (%d calls), client=%v (%d waiters)", c.Servers, c.DownServer, len(conns), c.InFlight, c.Streams, c.UseTrans, c.TransCalls, c.UseClient, c.Waiters)

	// participants in index order: servers, conns, transport, client
	type participant struct {
		name  string
		close func() error
		kind  string
	}
	var parts []participant
	for i := range srvs {
		i := i
		parts = append(parts, participant{name: fmt.Sprintf("server%d", i), kind: "server", close: func() error {
			if srvs[i] == nil {
				return nil
			}
			return srvs[i].Close()
		}})
	}
	for k := 0; k < c.Conns; k++ {
		k := k
		parts = append(parts, participant{name: fmt.Sprintf("conn%d", k), kind: "conn", close: func() error {
			if k >= len(conns) {
				return nil
			}
			return conns[k].Close()
		}})
	}
	if c.UseTrans {
		parts = append(parts, participant{name: "transport", kind: "transport", close: func() error { return tr.Close() }})
	}
	if c.UseClient {
		parts = append(parts, participant{name: "client", kind: "client", close: func() error {
			if c.Recover && c.DownServer >= 0 && srvs[c.DownServer] == nil {
				// the target comes up while the client is being closed
				// (a concurrent Server.Close of the same participant may stop it again at once)
				startServer(c.DownServer)
				time.Sleep(time.Duration(c.RecoverUS) * time.Microsecond)
			}
			return client.Close()
		}})
	}
	var verdict *kit.Outcome
	var vmu sync.Mutex
	setV := func(o kit.Outcome) {
		vmu.Lock()
		if verdict == nil {
			verdict = &o
		}
		vmu.Unlock()
	}
	closeOne := func(idx, times int) {
		p := parts[idx]
		for r := 0; r < times; r++ {
			rc := make(chan error, 1)
			go func() { rc <- p.close() }()
			select {
			case err := <-rc:
				h("%s.Close() #%d -> %v", p.name, r+1, err)
				switch p.kind {
				case "conn":
					if idx-c.Servers >= len(conns) {
						continue
					}
					if r == 0 && err != nil && err != rpc.ErrShutdown {
						// the first Close returns the codec's result; nil expected on a live link
					}
					if r >= 1 && err != rpc.ErrShutdown {
						setV(kit.Fail("close-return", "the second Conn.Close returned %v, expected ErrShutdown", err))
					}
				default:
					if err != nil {
						setV(kit.Fail("close-return", "%s Close #%d returned %v, expected nil", p.kind, r+1, err))
					}
				}
			case <-time.After(bound):
				o := kit.Fail("close-hangs", "%s.Close() #%d did not return within %v", p.name, r+1, bound)
				o.Timing = true
				setV(o)
				return
			}
		}
	}
	// connections that arrive while the servers are being closed: peers that connect and leave at
	// once, until the address refuses them. Whatever the server accepted of them is its to close.
	var stormStop int32
	var stormWG sync.WaitGroup
	stormDials := int64(0)
	if c.DialStorm < 0 || c.DialStorm > 16 {
		return kit.Outcome{Invalid: true}
	}
	for g := 0; g < c.DialStorm; g++ {
		stormWG.Add(1)
		go func(g int) {
			defer stormWG.Done()
			a := addrs[g%c.Servers]
			for atomic.LoadInt32(&stormStop) == 0 {
				pc, err := rpc.DialWithOptions(a, opts)
				if err != nil {
					time.Sleep(50 * time.Microsecond)
					continue
				}
				atomic.AddInt64(&stormDials, 1)
				pc.Close()
			}
		}(g)
	}
	stopStorm := func() {
		atomic.StoreInt32(&stormStop, 1)
		stormWG.Wait()
	}
	defer stopStorm()
	closeStart := time.Now()
	if c.Concurrent {
		var wg sync.WaitGroup
		for i, idx := range c.Order {
			wg.Add(1)
			go func(i, idx int) { defer wg.Done(); closeOne(idx, c.Repeat[i]) }(i, idx)
		}
		wg.Wait()
	} else {
		for i, idx := range c.Order {
			closeOne(idx, c.Repeat[i])
		}
	}
	if verdict != nil {
		return fail(*verdict)
	}
	stopStorm()
	// a server started during Client.Close is a participant too
	for i := range srvs {
		if srvs[i] != nil {
			srvs[i].Close()
		}
	}
	cleanupEnvs()
	// Server.Close makes Listen return
	for i := range lisRet {
		if lisRet[i] == nil {
			continue
		}
		select {
		case <-lisRet[i]:
		case <-time.After(bound):
			o := kit.Fail("listen-does-not-return", "Listen of server %d had not returned %v after Server.Close", i, bound)
			o.Timing = true
			return fail(o)
		}
	}
	// callers blocked inside the library return
	udone := make(chan struct{})
	go func() { userWG.Wait(); close(udone) }()
	select {
	case <-udone:
	case <-time.After(bound):
		o := kit.Fail("caller-stranded", "a caller (call in flight, blocked stream reader or waiting Client caller) had not returned %v after everything was closed", bound)
		o.Timing = true
		return fail(o)
	}
	h("everything closed after %v", time.Since(closeStart))
	// every connection anyone dialed or accepted is closed by its owner
	deadline := time.Now().Add(bound)
	for {
		cl, sv := net.OpenEndpoints()
		if cl == 0 && sv == 0 {
			break
		}
		if time.Now().After(deadline) {
			detail := ""
			for _, mc := range net.ClientConns("") {
				if !mc.IsClosed() {
					detail += fmt.Sprintf(" client endpoint #%d to %s dialed %v after closing started;", mc.ID, mc.Addr, mc.DialedAt.Sub(closeStart))
				}
				if !mc.Peer().IsClosed() {
					detail += fmt.Sprintf(" server endpoint #%d of %s;", mc.ID, mc.Addr)
				}
			}
			o := kit.Fail("connection-leak", "%d client-side and %d server-side connection endpoints were still open %v after every participant was closed:%s", cl, sv, bound, detail)
			o.Timing = true
			o.Sig = fmt.Sprintf("client=%d server=%d", cl, sv)
			return fail(o)
		}
		time.Sleep(time.Millisecond)
	}
	left := kit.NewLibraryGoroutines(before, bound)
	if len(left) > 0 {
		o := kit.Fail("goroutine-leak", "%d goroutines started by the library were still running %v after every participant was closed, e.g. %s", len(left), bound, left[0].TopFrames(4))
		o.Timing = true
		return fail(o)
	}
	out := kit.Outcome{Classes: []string{"enc=" + c.Enc}}
	if c.DialStorm > 0 {
		out.Classes = append(out.Classes, "connections-arriving-during-close")
		out.Counters = map[string]int{"storm_dials": int(atomic.LoadInt64(&stormDials))}
	}
	busy := (c.InFlight > 0 || c.Streams > 0) && len(conns) > 0 || c.TransCalls > 0 && c.UseTrans || c.Waiters > 0
	clientFirst := true
	// "client-first" = all client-side participants before every server in the order
	lastClientPos, firstServerPos := -1, len(c.Order)
	for pos, idx := range c.Order {
		if idx < c.Servers {
			if pos < firstServerPos {
				firstServerPos = pos
			}
		} else if pos > lastClientPos {
			lastClientPos = pos
		}
	}
	if lastClientPos > firstServerPos {
		clientFirst = false
	}
	if busy && n >= 2 && (!clientFirst || c.Concurrent) {
		out.Nontrivial = true
	}
	if c.Recover {
		out.Classes = append(out.Classes, "target-recovers-during-client-close")
	}
	if c.Waiters > 0 {
		out.Classes = append(out.Classes, "waiting-callers")
	}
	if c.Concurrent {
		out.Classes = append(out.Classes, "concurrent-close")
	}
	return out
}

var prop = kit.Property[Case]{
	ID:    "C20",
	Level: "exploration",
	Rule:  "rapid-generated cases over the counting in-memory network: 1-3 non-poll Servers, 0-3 Conns (each with 0-3 gated calls in flight and 0-2 streams with blocked readers), optionally a Transport (gated calls plus an idle pooled connection) and a Client on its own Transport (optionally with a down target, 0-3 callers waiting for it, and the target coming up 0-101 ms before Client.Close); after 0-130 ms every participant is closed 1-3 times in a drawn permutation or all concurrently. Oracle: a second Conn.Close returns ErrShutdown, repeated Server/Transport/Client Close return nil and return within 10 s, every Listen returns within 10 s, every caller blocked inside the library returns, within 10 s the network shows 0 open endpoints on both sides and no goroutine started by the library survives (goroutine-profile diff). Non-trivial: something in flight / blocked / waiting at the first Close and >= 2 participants closed in an order other than all-clients-first (or concurrently); distinct by SHA-1 of the case.",
	Assumptions: []string{
		"poll-mode servers are excluded by the statement",
		"'background goroutine the library started' = its created-by frame is in github.com/hslam/...; harness goroutines calling into the library are tracked separately and must return",
		"10 s bounds must reproduce in isolation (rule T)",
	},
	Gen: gen,
	Run: run,
}

func TestProperty(t *testing.T) { kit.Check(t, prop) }
