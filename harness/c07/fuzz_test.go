package c07

import (
	"encoding/json"
	"fmt"
	"os"
	"testing"
	"unicode/utf8"

	"github.com/hslam/rpc"
	"verif/harness/kit"
)

// The native fuzz targets decode arbitrary bytes with the library; whenever the library accepts
// them, the decoded fields must survive re-encoding by the library and decoding by the
// independent reference decoder (oracles (1) and (3) on decoded-then-re-encoded input).
var fuzzEncs = []string{"pb", "code", "json"}

func fuzzRequest(t *testing.T, sel byte, data []byte) {
	enc := fuzzEncs[int(sel)%3]
	e := kit.HeaderEncoder(enc)
	codec := e.NewCodec()
	req := e.NewRequest()
	req.Reset()
	if err := codec.Unmarshal(data, req); err != nil {
		return
	}
	want := kit.ReqHeader{Seq: req.GetSeq(), Upgrade: append([]byte(nil), req.GetUpgrade()...), Method: string([]byte(req.GetServiceMethod())), Args: append([]byte(nil), req.GetArgs()...)}
	if enc == "json" && !utf8.ValidString(want.Method) {
		return
	}
	r2 := e.NewRequest()
	r2.SetSeq(want.Seq)
	r2.SetUpgrade(want.Upgrade)
	r2.SetServiceMethod(want.Method)
	r2.SetArgs(want.Args)
	out, err := codec.Marshal(nil, r2)
	if err != nil {
		t.Fatalf("re-encoding accepted fields failed: %v", err)
	}
	ref, err := kit.RefDecodeRequest(enc, out)
	if err != nil {
		t.Fatalf("re-encoded request is not in the documented %s format: %v", enc, err)
	}
	if d := diffReq(want, ref); d != "" {
		t.Fatalf("independent decoder reads different fields after re-encoding: %s", d)
	}
	r3 := e.NewRequest()
	r3.Reset()
	if err := codec.Unmarshal(out, r3); err != nil {
		t.Fatalf("round-trip failed: %v", err)
	}
	if d := diffReq(want, kit.ReqHeader{Seq: r3.GetSeq(), Upgrade: r3.GetUpgrade(), Method: r3.GetServiceMethod(), Args: r3.GetArgs()}); d != "" {
		t.Fatalf("round-trip lost data: %s", d)
	}
}

func fuzzResponse(t *testing.T, sel byte, data []byte) {
	enc := fuzzEncs[int(sel)%3]
	e := kit.HeaderEncoder(enc)
	codec := e.NewCodec()
	res := e.NewResponse()
	res.Reset()
	if err := codec.Unmarshal(data, res); err != nil {
		return
	}
	want := kit.ResHeader{Seq: res.GetSeq(), Error: string([]byte(res.GetError())), Reply: append([]byte(nil), res.GetReply()...)}
	if enc == "json" && !utf8.ValidString(want.Error) {
		return
	}
	r2 := e.NewResponse()
	r2.SetSeq(want.Seq)
	r2.SetError(want.Error)
	r2.SetReply(want.Reply)
	out, err := codec.Marshal(nil, r2)
	if err != nil {
		t.Fatalf("re-encoding accepted fields failed: %v", err)
	}
	ref, err := kit.RefDecodeResponse(enc, out)
	if err != nil {
		t.Fatalf("re-encoded response is not in the documented %s format: %v", enc, err)
	}
	if d := diffRes(want, ref); d != "" {
		t.Fatalf("independent decoder reads different fields after re-encoding: %s", d)
	}
}

func seed(f *testing.F, req bool) {
	for i, enc := range fuzzEncs {
		if req {
			f.Add(byte(i), kit.RefEncodeRequest(enc, kit.ReqHeader{Seq: 300, Upgrade: []byte{0xe0}, Method: "S.Echo", Args: []byte("arguments")}))
			f.Add(byte(i), kit.RefEncodeRequest(enc, kit.ReqHeader{}))
		} else {
			f.Add(byte(i), kit.RefEncodeResponse(enc, kit.ResHeader{Seq: 1 << 40, Error: "an error", Reply: []byte("reply")}))
			f.Add(byte(i), kit.RefEncodeResponse(enc, kit.ResHeader{}))
		}
	}
	f.Add(byte(0), []byte{0x08})
	f.Add(byte(1), []byte{0x01})
	f.Add(byte(1), []byte{0x80})
}

// FuzzRequestHeader is the native fuzz target for request headers.
func FuzzRequestHeader(f *testing.F) {
	seed(f, true)
	f.Fuzz(fuzzRequest)
}

// FuzzResponseHeader is the native fuzz target for response headers.
func FuzzResponseHeader(f *testing.F) {
	seed(f, false)
	f.Fuzz(fuzzResponse)
}

var _ rpc.Codec

// TestFuzzToCase reports a native fuzz crasher in a form the driver can store (C07's rapid cases
// cannot express arbitrary undecodable bytes, so the crasher file itself is the replay unit).
func TestFuzzToCase(t *testing.T) {
	path := os.Getenv("VERIF_FUZZ_FILE")
	if path == "" {
		t.Skip("no VERIF_FUZZ_FILE")
	}
	args, err := kit.ParseFuzzFile(path)
	if err != nil {
		t.Fatal(err)
	}
	b, _ := json.Marshal(map[string]interface{}{"mode": "fuzzfile", "args": args})
	fmt.Printf("VERIF-CASE %s\n", b)
}
