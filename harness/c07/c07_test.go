package c07

import (
	"bytes"
	"fmt"
	"testing"
	"time"
	"unicode/utf8"

	"github.com/hslam/rpc"
	"pgregory.net/rapid"
	"verif/harness/kit"
)

// Case is one generated header value plus the way it is pushed through the library.
type Case struct {
	Mode     string `json:"mode"` // codec | serverwire | clientwire | flags
	Enc      string `json:"enc"`
	Kind     string `json:"kind,omitempty"` // req | res (codec mode)
	Seq      uint64 `json:"seq"`
	UpgLen   int    `json:"upg_len"`
	UpgSalt  uint32 `json:"upg_salt"`
	TextKind string `json:"text_kind"` // bytes | ascii | utf8
	TextLen  int    `json:"text_len"`
	TextSalt uint32 `json:"text_salt"`
	BodyLen  int    `json:"body_len"`
	BodySalt uint32 `json:"body_salt"`
	Scratch  int    `json:"scratch"` // -1: nil scratch buffer, otherwise its capacity
	Fill     byte   `json:"fill"`
	FullLen  bool   `json:"full_len"` // scratch passed with len==cap instead of len 0
	// wire modes
	Pipelining bool `json:"pipelining,omitempty"`
	DirectIO   bool `json:"direct_io,omitempty"`
	Known      int  `json:"known,omitempty"`   // serverwire: 0 unknown method, 1..4 handler shape, 5 failing handler
	BufSize    int  `json:"buf_size,omitempty"` // clientwire: Conn.SetBufferSize (0 = leave)
	Flag       int  `json:"flag,omitempty"`
}

var boundaries = []int{127, 128, 16383, 16384, 2097151, 2097152}

func nearBoundary(n int) bool {
	for _, b := range boundaries {
		if n >= b-1 && n <= b+1 {
			return true
		}
	}
	return false
}

func genLen(t *rapid.T, label string, max int, withBig bool) int {
	k := rapid.IntRange(0, 11).Draw(t, label+"_class")
	switch k {
	case 0:
		return 0
	case 1:
		return 1
	case 2:
		return rapid.SampledFrom([]int{126, 127, 128, 129}).Draw(t, label)
	case 3:
		return rapid.SampledFrom([]int{16382, 16383, 16384, 16385}).Draw(t, label)
	case 4:
		if withBig {
			return rapid.SampledFrom([]int{2097150, 2097151, 2097152, 2097153}).Draw(t, label)
		}
		return rapid.IntRange(0, 300).Draw(t, label)
	case 5:
		if withBig && rapid.IntRange(0, 9).Draw(t, label+"_rare") == 0 {
			return rapid.IntRange(2097153, 3<<20).Draw(t, label)
		}
		return rapid.IntRange(0, max).Draw(t, label)
	case 6, 7:
		return rapid.IntRange(0, max).Draw(t, label)
	default:
		return rapid.IntRange(0, 200).Draw(t, label)
	}
}

func genSeq(t *rapid.T) uint64 {
	k := rapid.IntRange(0, 5).Draw(t, "seq_class")
	switch k {
	case 0:
		return 0
	case 1:
		return 1
	case 2:
		e := rapid.IntRange(1, 9).Draw(t, "seq_exp")
		v := uint64(1) << (7 * uint(e))
		if rapid.Bool().Draw(t, "seq_minus") {
			return v - 1
		}
		return v
	case 3:
		return rapid.SampledFrom([]uint64{1 << 63, ^uint64(0), 1<<63 - 1, 1<<32 - 1, 1 << 32}).Draw(t, "seq")
	default:
		return rapid.Uint64().Draw(t, "seq")
	}
}

func gen(t *rapid.T) Case {
	c := Case{}
	m := rapid.IntRange(0, 9).Draw(t, "mode")
	switch {
	case m <= 5:
		c.Mode = "codec"
	case m <= 7:
		c.Mode = "serverwire"
	default:
		c.Mode = "clientwire"
	}
	c.Seq = genSeq(t)
	c.UpgSalt = rapid.Uint32().Draw(t, "upg_salt")
	c.TextSalt = rapid.Uint32().Draw(t, "text_salt")
	c.BodySalt = rapid.Uint32().Draw(t, "body_salt")
	switch c.Mode {
	case "codec":
		c.Enc = rapid.SampledFrom([]string{"pb", "code", "json"}).Draw(t, "enc")
		c.Kind = rapid.SampledFrom([]string{"req", "res"}).Draw(t, "kind")
		u := rapid.IntRange(0, 5).Draw(t, "upg_class")
		switch u {
		case 0:
			c.UpgLen = 0
		case 1, 2, 3:
			c.UpgLen = 1
		default:
			c.UpgLen = rapid.SampledFrom([]int{2, 8, 127, 128, 300}).Draw(t, "upg_len")
		}
		c.TextLen = genLen(t, "text_len", 70000, false)
		c.BodyLen = genLen(t, "body_len", 70000, true)
		if c.Enc == "json" {
			c.TextKind = rapid.SampledFrom([]string{"ascii", "utf8"}).Draw(t, "text_kind")
		} else {
			c.TextKind = rapid.SampledFrom([]string{"ascii", "utf8", "bytes"}).Draw(t, "text_kind")
		}
		s := rapid.IntRange(0, 7).Draw(t, "scratch_class")
		switch s {
		case 0:
			c.Scratch = -1
		case 1:
			c.Scratch = 0
		case 2:
			c.Scratch = 65536
		case 3:
			c.Scratch = rapid.IntRange(1, 64).Draw(t, "scratch")
		default:
			// around the encoded size
			approx := c.UpgLen + c.TextLen + c.BodyLen
			c.Scratch = approx + rapid.IntRange(-2, 48).Draw(t, "scratch_delta")
			if c.Scratch < 0 {
				c.Scratch = 0
			}
		}
		c.Fill = rapid.Byte().Draw(t, "fill")
		c.FullLen = rapid.Bool().Draw(t, "full_len")
	case "serverwire":
		c.Enc = rapid.SampledFrom(kit.Encoders).Draw(t, "enc")
		c.Known = rapid.IntRange(0, 5).Draw(t, "known")
		c.TextLen = genLen(t, "text_len", 40000, false)
		c.BodyLen = genLen(t, "body_len", 70000, true)
		if c.Enc == "json" {
			c.TextKind = rapid.SampledFrom([]string{"ascii", "utf8"}).Draw(t, "text_kind")
		} else {
			c.TextKind = rapid.SampledFrom([]string{"ascii", "utf8", "bytes"}).Draw(t, "text_kind")
		}
		c.Pipelining = rapid.Bool().Draw(t, "pipelining")
		c.DirectIO = rapid.Bool().Draw(t, "direct_io")
	case "clientwire":
		c.Enc = rapid.SampledFrom(kit.Encoders).Draw(t, "enc")
		c.Seq = uint64(rapid.IntRange(0, 3).Draw(t, "prior_calls"))
		c.TextLen = genLen(t, "text_len", 40000, false)
		c.BodyLen = genLen(t, "body_len", 70000, true)
		if c.Enc == "json" {
			c.TextKind = rapid.SampledFrom([]string{"ascii", "utf8"}).Draw(t, "text_kind")
		} else {
			c.TextKind = rapid.SampledFrom([]string{"ascii", "utf8", "bytes"}).Draw(t, "text_kind")
		}
		c.Kind = rapid.SampledFrom([]string{"ok", "err", "ping", "stream"}).Draw(t, "kind")
		c.DirectIO = rapid.Bool().Draw(t, "direct_io")
		c.BufSize = rapid.SampledFrom([]int{0, 0, 64, 4096, 1 << 20}).Draw(t, "buf_size")
	}
	return c
}

func enum(tier string, yield func(Case)) {
	// every flag byte
	for f := 0; f < 256; f++ {
		yield(Case{Mode: "flags", Flag: f})
	}
	// every boundary length +-1 for every variable-length field of every encoder, request and response
	for _, enc := range []string{"pb", "code", "json"} {
		for _, kind := range []string{"req", "res"} {
			for _, b := range boundaries {
				for d := -1; d <= 1; d++ {
					n := b + d
					tk := "bytes"
					if enc == "json" {
						tk = "utf8"
					}
					if n < 100000 {
						yield(Case{Mode: "codec", Enc: enc, Kind: kind, Seq: 1, TextKind: tk, TextLen: n, TextSalt: uint32(n), Scratch: -1})
						if kind == "req" {
							yield(Case{Mode: "codec", Enc: enc, Kind: kind, Seq: 1, TextKind: tk, UpgLen: n, UpgSalt: uint32(n), Scratch: -1})
						}
					}
					yield(Case{Mode: "codec", Enc: enc, Kind: kind, Seq: 1, TextKind: tk, BodyLen: n, BodySalt: uint32(n), Scratch: n + 3, Fill: 0xAA})
				}
			}
			// every varint width of the sequence number
			for e := 0; e <= 9; e++ {
				v := uint64(1) << (7 * uint(e))
				for _, s := range []uint64{v - 1, v, v + 1} {
					yield(Case{Mode: "codec", Enc: enc, Kind: kind, Seq: s, TextKind: "ascii", TextLen: 3, BodyLen: 5, Scratch: 64, Fill: 0x55, FullLen: true})
				}
			}
			yield(Case{Mode: "codec", Enc: enc, Kind: kind, Seq: ^uint64(0), TextKind: "ascii", TextLen: 3, BodyLen: 5, Scratch: -1})
		}
	}
}

func eqBytes(a, b []byte) bool { return bytes.Equal(a, b) } // nil and empty are equal

func scratch(c Case) []byte {
	if c.Scratch < 0 {
		return nil
	}
	b := make([]byte, c.Scratch)
	for i := range b {
		b[i] = c.Fill
	}
	if c.FullLen {
		return b
	}
	return b[:0]
}

func runCodec(c Case) kit.Outcome {
	enc := kit.HeaderEncoder(c.Enc)
	if enc == nil {
		return kit.Outcome{Invalid: true}
	}
	if c.UpgLen < 0 || c.TextLen < 0 || c.BodyLen < 0 || c.UpgLen > 1<<16 || c.TextLen > 1<<20 || c.BodyLen > 4<<20 {
		return kit.Outcome{Invalid: true}
	}
	upg := []byte(kit.MakeText("bytes", c.UpgLen, c.UpgSalt))
	text := kit.MakeText(c.TextKind, c.TextLen, c.TextSalt)
	if c.Enc == "json" && !utf8.ValidString(text) {
		return kit.Outcome{Invalid: true}
	}
	body := make([]byte, c.BodyLen)
	kit.FillBytes(body, uint64(c.BodySalt), c.BodySalt)
	codec := enc.NewCodec()
	if c.Kind == "req" {
		want := kit.ReqHeader{Seq: c.Seq, Upgrade: upg, Method: text, Args: body}
		mk := func() rpc.Request {
			r := enc.NewRequest()
			r.SetSeq(want.Seq)
			r.SetUpgrade(want.Upgrade)
			r.SetServiceMethod(want.Method)
			r.SetArgs(want.Args)
			return r
		}
		data, err := codec.Marshal(scratch(c), mk())
		if err != nil {
			return kit.Fail("marshal-error", "Marshal(request) failed: %v", err)
		}
		data = append([]byte(nil), data...)
		data0, err := codec.Marshal(nil, mk())
		if err != nil {
			return kit.Fail("marshal-error", "Marshal(nil, request) failed: %v", err)
		}
		if !bytes.Equal(data, data0) {
			return kit.Fail("scratch-dependence", "request bytes depend on the scratch buffer (cap %d fill %#x): %s vs %s", c.Scratch, c.Fill, kit.Brief(data), kit.Brief(data0))
		}
		got := enc.NewRequest()
		got.Reset()
		if err := codec.Unmarshal(data, got); err != nil {
			return kit.Fail("roundtrip", "Unmarshal(Marshal(request)) failed: %v", err)
		}
		if d := diffReq(want, kit.ReqHeader{Seq: got.GetSeq(), Upgrade: got.GetUpgrade(), Method: got.GetServiceMethod(), Args: got.GetArgs()}); d != "" {
			return kit.Fail("roundtrip", "request round-trip lost data: %s", d)
		}
		ref, err := kit.RefDecodeRequest(c.Enc, data)
		if err != nil {
			return kit.Fail("format", "request bytes are not in the documented %s format: %v (%s)", c.Enc, err, kit.Brief(data))
		}
		if d := diffReq(want, ref); d != "" {
			return kit.Fail("format", "independent decoder reads different request fields: %s", d)
		}
		got2 := enc.NewRequest()
		got2.Reset()
		refData := kit.RefEncodeRequest(c.Enc, want)
		if err := codec.Unmarshal(refData, got2); err != nil {
			return kit.Fail("interop", "library cannot decode a documented-format request: %v", err)
		}
		if d := diffReq(want, kit.ReqHeader{Seq: got2.GetSeq(), Upgrade: got2.GetUpgrade(), Method: got2.GetServiceMethod(), Args: got2.GetArgs()}); d != "" {
			return kit.Fail("interop", "library decodes a documented-format request differently: %s", d)
		}
	} else {
		want := kit.ResHeader{Seq: c.Seq, Error: text, Reply: body}
		mk := func() rpc.Response {
			r := enc.NewResponse()
			r.SetSeq(want.Seq)
			r.SetError(want.Error)
			r.SetReply(want.Reply)
			return r
		}
		data, err := codec.Marshal(scratch(c), mk())
		if err != nil {
			return kit.Fail("marshal-error", "Marshal(response) failed: %v", err)
		}
		data = append([]byte(nil), data...)
		data0, err := codec.Marshal(nil, mk())
		if err != nil {
			return kit.Fail("marshal-error", "Marshal(nil, response) failed: %v", err)
		}
		if !bytes.Equal(data, data0) {
			return kit.Fail("scratch-dependence", "response bytes depend on the scratch buffer (cap %d fill %#x)", c.Scratch, c.Fill)
		}
		got := enc.NewResponse()
		got.Reset()
		if err := codec.Unmarshal(data, got); err != nil {
			return kit.Fail("roundtrip", "Unmarshal(Marshal(response)) failed: %v", err)
		}
		if d := diffRes(want, kit.ResHeader{Seq: got.GetSeq(), Error: got.GetError(), Reply: got.GetReply()}); d != "" {
			return kit.Fail("roundtrip", "response round-trip lost data: %s", d)
		}
		ref, err := kit.RefDecodeResponse(c.Enc, data)
		if err != nil {
			return kit.Fail("format", "response bytes are not in the documented %s format: %v (%s)", c.Enc, err, kit.Brief(data))
		}
		if d := diffRes(want, ref); d != "" {
			return kit.Fail("format", "independent decoder reads different response fields: %s", d)
		}
		got2 := enc.NewResponse()
		got2.Reset()
		if err := codec.Unmarshal(kit.RefEncodeResponse(c.Enc, want), got2); err != nil {
			return kit.Fail("interop", "library cannot decode a documented-format response: %v", err)
		}
		if d := diffRes(want, kit.ResHeader{Seq: got2.GetSeq(), Error: got2.GetError(), Reply: got2.GetReply()}); d != "" {
			return kit.Fail("interop", "library decodes a documented-format response differently: %s", d)
		}
	}
	out := kit.Outcome{Classes: []string{"codec", "enc=" + c.Enc, "kind=" + c.Kind}}
	dirty := c.Scratch > 0 && c.Fill != 0
	if nearBoundary(c.UpgLen) || nearBoundary(c.TextLen) || nearBoundary(c.BodyLen) || dirty {
		out.Nontrivial = true
	}
	if nearBoundary(c.BodyLen) {
		out.Classes = append(out.Classes, "body-at-boundary")
	}
	if nearBoundary(c.TextLen) {
		out.Classes = append(out.Classes, "text-at-boundary")
	}
	if dirty {
		out.Classes = append(out.Classes, "dirty-scratch")
	}
	if c.BodyLen > 2097152 {
		out.Classes = append(out.Classes, "body>2MiB")
	}
	return out
}

func diffReq(w, g kit.ReqHeader) string {
	switch {
	case w.Seq != g.Seq:
		return fmt.Sprintf("seq %d != %d", g.Seq, w.Seq)
	case !eqBytes(w.Upgrade, g.Upgrade):
		return fmt.Sprintf("upgrade %s != %s", kit.Brief(g.Upgrade), kit.Brief(w.Upgrade))
	case w.Method != g.Method:
		return fmt.Sprintf("method %s != %s", kit.BriefS(g.Method), kit.BriefS(w.Method))
	case !eqBytes(w.Args, g.Args):
		return fmt.Sprintf("args %s != %s", kit.Brief(g.Args), kit.Brief(w.Args))
	}
	return ""
}

func diffRes(w, g kit.ResHeader) string {
	switch {
	case w.Seq != g.Seq:
		return fmt.Sprintf("seq %d != %d", g.Seq, w.Seq)
	case w.Error != g.Error:
		return fmt.Sprintf("error %s != %s", kit.BriefS(g.Error), kit.BriefS(w.Error))
	case !eqBytes(w.Reply, g.Reply):
		return fmt.Sprintf("reply %s != %s", kit.Brief(g.Reply), kit.Brief(w.Reply))
	}
	return ""
}

const wait = 10 * time.Second

// a peer that does not answer at all is not a statement about header formats: undecided
func timing(clause, format string, a ...interface{}) kit.Outcome {
	return kit.Undecided("["+clause+"] "+format, a...)
}

// runServerWire: a request frame written with the reference encoder is decoded by a real server;
// the response it writes is decoded with the reference decoder.
func runServerWire(c Case) kit.Outcome {
	if kit.HeaderEncoder(c.Enc) == nil && c.Enc != "default" {
		return kit.Outcome{Invalid: true}
	}
	if c.TextLen < 0 || c.BodyLen < 0 || c.TextLen > 1<<20 || c.BodyLen > 4<<20 || c.Known < 0 || c.Known > 5 {
		return kit.Outcome{Invalid: true}
	}
	env := kit.NewEnv()
	srv := kit.NewServer(env, c.Pipelining, c.DirectIO)
	link := kit.NewFrameLink()
	done := kit.ServeLink(srv, link, c.Enc, c.DirectIO)
	cli := kit.NewScriptClient(link, c.Enc, env.Tick)
	defer func() {
		link.C.Close()
		select {
		case <-done:
		case <-time.After(wait):
		}
	}()
	text := kit.MakeText(c.TextKind, c.TextLen, c.TextSalt)
	var req kit.ReqHeader
	var want kit.ResHeader
	req.Seq, want.Seq = c.Seq, c.Seq
	switch {
	case c.Known == 0:
		req.Method = "U." + text
		req.Args = kit.MakePayload(1, kit.DirEcho, c.BodySalt, c.BodyLen)
		want.Error = "can't find service " + req.Method
	case c.Known <= 4:
		req.Method = kit.Methods[c.Known-1]
		req.Args = kit.MakePayload(1, kit.DirEcho, c.BodySalt, c.BodyLen)
		want.Reply = kit.Transform(req.Args)
	default:
		if c.TextLen == 0 {
			text = "e"
		}
		req.Method = "S.Echo"
		req.Args = kit.MakeFailPayload(1, false, text)
		want.Error = text
	}
	if err := cli.Send(req); err != nil {
		return kit.Fail("harness", "send failed: %v", err)
	}
	if !cli.WaitResponses(1, wait) {
		return timing("no-response", "server wrote no response within %v to a documented-format %s request (seq %d method %s args %d bytes)", wait, c.Enc, req.Seq, kit.BriefS(req.Method), len(req.Args))
	}
	r := cli.Responses()[0]
	if r.DecErr != "" {
		return kit.Fail("format", "response bytes are not in the documented %s format: %s (%s)", c.Enc, r.DecErr, kit.Brief(r.Raw))
	}
	if want.Error != "" {
		// what else an error response carries is not specified
		r.ResHeader.Reply = nil
	}
	if d := diffRes(want, r.ResHeader); d != "" {
		return kit.Fail("wire", "server response differs from expectation: %s", d)
	}
	out := kit.Outcome{Classes: []string{"serverwire", "enc=" + c.Enc}}
	if nearBoundary(c.TextLen+2) || nearBoundary(c.TextLen) || nearBoundary(c.BodyLen) {
		out.Nontrivial = true
	}
	return out
}

// runClientWire: what a real Conn writes is decoded with the reference decoder; what the
// reference encoder writes is decoded by the real Conn.
func runClientWire(c Case) kit.Outcome {
	if kit.HeaderEncoder(c.Enc) == nil && c.Enc != "default" {
		return kit.Outcome{Invalid: true}
	}
	if c.TextLen < 0 || c.BodyLen < 0 || c.TextLen > 1<<20 || c.BodyLen > 4<<20 || c.Seq > 8 {
		return kit.Outcome{Invalid: true}
	}
	link := kit.NewFrameLink()
	srv := kit.NewScriptServer(link, c.Enc)
	conn := kit.NewLinkConn(link, c.Enc)
	conn.SetDirectIO(c.DirectIO)
	if c.BufSize > 0 {
		conn.SetBufferSize(c.BufSize)
	}
	defer conn.Close()
	// prior calls advance the sequence number
	for i := uint64(0); i < c.Seq; i++ {
		args := kit.MakePayload(100+i, 0, 7, 20)
		var reply []byte
		call := conn.Go("S.Echo", &args, &reply, make(chan *rpc.Call, 1))
		if !srv.WaitRequests(int(i)+1, wait) {
			return timing("no-request", "request %d never reached the wire", i)
		}
		srv.Respond(kit.ResHeader{Seq: i, Reply: kit.Transform(args)})
		select {
		case <-call.Done:
		case <-time.After(wait):
			return timing("no-completion", "prior call %d did not complete", i)
		}
	}
	text := kit.MakeText(c.TextKind, c.TextLen, c.TextSalt)
	args := kit.MakePayload(1, 0, c.BodySalt, c.BodyLen)
	idx := int(c.Seq)
	want := kit.ReqHeader{Seq: c.Seq}
	type result struct {
		err   error
		reply []byte
	}
	resc := make(chan result, 1)
	var reply []byte
	switch c.Kind {
	case "ok", "err":
		want.Method = "M." + text
		want.Args = args
		call := conn.Go(want.Method, &args, &reply, make(chan *rpc.Call, 1))
		go func() {
			select {
			case <-call.Done:
				resc <- result{err: call.Error, reply: reply}
			case <-time.After(wait):
				resc <- result{err: fmt.Errorf("harness: timeout")}
			}
		}()
	case "ping":
		want.Upgrade = []byte{kit.RefUpgrade(true, true, true, 0)}
		go func() { resc <- result{err: conn.Ping()} }()
	case "stream":
		want.Upgrade = []byte{kit.RefUpgrade(true, true, false, kit.StreamOpen)}
		want.Method = "M." + text
		go func() {
			_, err := conn.NewStream(want.Method)
			resc <- result{err: err}
		}()
	default:
		return kit.Outcome{Invalid: true}
	}
	if !srv.WaitRequests(idx+1, wait) {
		return timing("no-request", "request never reached the wire")
	}
	got := srv.Requests()[idx]
	if got.DecErr != "" {
		return kit.Fail("format", "request bytes are not in the documented %s format: %s (%s)", c.Enc, got.DecErr, kit.Brief(got.Raw))
	}
	if d := diffReq(want, got.ReqHeader); d != "" {
		return kit.Fail("wire", "client request differs from expectation: %s", d)
	}
	res := kit.ResHeader{Seq: c.Seq}
	wantReply := []byte(nil)
	wantErr := ""
	switch c.Kind {
	case "ok":
		wantReply = make([]byte, c.TextLen)
		kit.FillBytes(wantReply, 77, c.TextSalt)
		res.Reply = wantReply
	case "err":
		if text == "" {
			text = "E"
		}
		wantErr = text
		res.Error = text
	}
	srv.Respond(res)
	var r result
	select {
	case r = <-resc:
	case <-time.After(wait + time.Second):
		return timing("no-completion", "call did not complete after its response was delivered")
	}
	switch {
	case wantErr != "":
		if r.err == nil || r.err.Error() != wantErr {
			return kit.Fail("wire", "client decoded error text %v, the documented-format response carried %s", r.err, kit.BriefS(wantErr))
		}
	case r.err != nil:
		return kit.Fail("wire", "client failed on a documented-format response: %v", r.err)
	case c.Kind == "ok" && !eqBytes(r.reply, wantReply):
		return kit.Fail("wire", "client decoded reply %s, sent %s", kit.Brief(r.reply), kit.Brief(wantReply))
	}
	out := kit.Outcome{Classes: []string{"clientwire", "enc=" + c.Enc, "kind=" + c.Kind}}
	if nearBoundary(c.TextLen+2) || nearBoundary(c.TextLen) || nearBoundary(c.BodyLen) || (c.BufSize > 0 && c.BufSize < c.BodyLen) {
		out.Nontrivial = true
	}
	return out
}

func runFlags(c Case) kit.Outcome {
	if c.Flag < 0 || c.Flag > 255 {
		return kit.Outcome{Invalid: true}
	}
	b := byte(c.Flag)
	nr, nrs, hb, st := rpc.VerifUpgradeUnmarshal(b)
	if nr != b>>7&1 || nrs != b>>6&1 || hb != b>>5&1 || st != b>>3&3 {
		return kit.Fail("flags", "flag byte %#02x decodes to (%d,%d,%d,%d), documented layout says (%d,%d,%d,%d)", b, nr, nrs, hb, st, b>>7&1, b>>6&1, b>>5&1, b>>3&3)
	}
	m := rpc.VerifUpgradeMarshal(nr, nrs, hb, st)
	if m != kit.RefUpgrade(nr == 1, nrs == 1, hb == 1, st) {
		return kit.Fail("flags", "flags (%d,%d,%d,%d) encode to %#02x, documented layout says %#02x", nr, nrs, hb, st, m, kit.RefUpgrade(nr == 1, nrs == 1, hb == 1, st))
	}
	a, b2, c2, d := rpc.VerifUpgradeUnmarshal(m)
	if a != nr || b2 != nrs || c2 != hb || d != st {
		return kit.Fail("flags", "flags (%d,%d,%d,%d) do not round-trip: got (%d,%d,%d,%d)", nr, nrs, hb, st, a, b2, c2, d)
	}
	return kit.Outcome{Nontrivial: b&7 == 0, Classes: []string{"flags"}}
}

func run(c Case) kit.Outcome {
	switch c.Mode {
	case "codec":
		return runCodec(c)
	case "serverwire":
		return runServerWire(c)
	case "clientwire":
		return runClientWire(c)
	case "flags":
		return runFlags(c)
	}
	return kit.Outcome{Invalid: true}
}

var prop = kit.Property[Case]{
	ID:    "C07",
	Level: "exploration",
	Rule: "rapid-generated header values (sequence numbers at every varint width, upgrade bytes, method/error text and bodies with lengths at and around 127/128, 16383/16384, 2097151/2097152 and random up to 3 MiB) x {pb, code, json} Marshal/Unmarshal with generated scratch buffers, and x {default, pb, code, json} through a real Server (request decoded, response encoded) and a real Conn (request encoded, response decoded), each judged by round-trip and by an independent reference encoder/decoder in both directions; plus an enumeration of all 256 flag bytes and of every boundary length +-1 per field per encoder. Non-trivial: a field length within +-1 of a varint boundary, or a non-empty dirty scratch buffer, or (flags) one of the 32 canonical flag combinations; distinct by SHA-1 of the case.",
	Assumptions: []string{
		"the reference codec in harness/kit/refcodec.go states the documented formats correctly (protobuf wire format fields 1-4/1-3; varint seq + varint-length-prefixed fields; JSON keys i,u,m,p / i,e,r with base64 byte fields)",
		"nil and empty byte fields are the same value",
		"json header: text restricted to valid UTF-8, as the property states",
	},
	Gen:            gen,
	Enum:           enum,
	EnumExhaustive: []string{"all 256 upgrade flag bytes (32 canonical combinations round-trip)", "every varint boundary length +-1 for every variable-length field of pb/code/json requests and responses", "every varint width of the sequence number"},
	Run:            run,
}

func TestProperty(t *testing.T) { kit.Check(t, prop) }
