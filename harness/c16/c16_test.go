package c16

import (
	"fmt"
	"sync"
	"sync/atomic"
	"testing"
	"time"

	"github.com/hslam/rpc"
	"pgregory.net/rapid"
	"verif/harness/kit"
)

// Op is one step performed while spinning callers run.
type Op struct {
	K       string `json:"k"`                 // update | health | sleep
	Targets []int  `json:"targets,omitempty"` // update: indexes into the 6 addresses; -1 is an empty string; duplicates allowed
	A       int    `json:"a,omitempty"`
	Up      bool   `json:"up,omitempty"`
	SleepMS int    `json:"sleep_ms"`
}

// Case is a Client configuration plus a history of Update / health changes racing callers.
type Case struct {
	Policy   int   `json:"policy"`   // 0 round robin, 1 random, 2 least time
	Director int   `json:"director"` // -2 none, -1 returns "", k>=0 always returns address k
	Initial  []int `json:"initial"`
	Spinners int   `json:"spinners"`
	PingMS   []int `json:"ping_ms"`           // per address: how long a health probe takes (slow probes are in flight across Updates)
	LatUS    []int `json:"lat_us,omitempty"`  // per address: how long a call takes (distinct latencies give LeastTime a favourite)
	TickMS   int   `json:"tick_ms,omitempty"` // Client.Tick (LeastTime exploration period); 0 = 5 ms
	Ops      []Op  `json:"ops"`
}

var addrs = []string{"t0", "t1", "t2", "t3", "t4", "t5"}

func genTargets(t *rapid.T) []int {
	n := rapid.IntRange(0, 6).Draw(t, "ntargets")
	var out []int
	for i := 0; i < n; i++ {
		out = append(out, rapid.IntRange(-1, 5).Draw(t, "target"))
	}
	return out
}

func gen(t *rapid.T) Case {
	c := Case{
		Policy:   rapid.IntRange(0, 2).Draw(t, "policy"),
		Director: rapid.SampledFrom([]int{-2, -2, -2, -1, 0, 5}).Draw(t, "director"),
		Initial:  genTargets(t),
		Spinners: rapid.IntRange(1, 4).Draw(t, "spinners"),
	}
	slow := rapid.IntRange(0, 2).Draw(t, "slow_probes") > 0
	for i := 0; i < 6; i++ {
		ms := 0
		if slow {
			ms = rapid.SampledFrom([]int{0, 2, 20, 60, 130}).Draw(t, "ping_ms")
		}
		c.PingMS = append(c.PingMS, ms)
	}
	if rapid.Bool().Draw(t, "latencies") {
		for i := 0; i < 6; i++ {
			c.LatUS = append(c.LatUS, rapid.SampledFrom([]int{0, 100, 400, 1500, 4000}).Draw(t, "lat_us"))
		}
		c.TickMS = rapid.SampledFrom([]int{0, 50, 1000}).Draw(t, "tick_ms")
	}
	n := rapid.IntRange(2, 8).Draw(t, "nops")
	cur := append([]int(nil), c.Initial...)
	for i := 0; i < n; i++ {
		k := rapid.IntRange(0, 9).Draw(t, "k")
		op := Op{SleepMS: rapid.SampledFrom([]int{0, 1, 5, 30, 110, 150}).Draw(t, "sleep_ms")}
		switch {
		case k <= 5:
			op.K = "update"
			switch how := rapid.IntRange(0, 5).Draw(t, "how"); {
			case how <= 1 && len(cur) >= 2:
				// the new set overlaps the old one: one or two targets leave (the fastest one when
				// latencies differ and the draw says so), the others stay
				next := append([]int(nil), cur...)
				drop := rapid.IntRange(0, len(next)-1).Draw(t, "drop")
				if len(c.LatUS) == 6 && rapid.Bool().Draw(t, "drop_fastest") {
					for j, a := range next {
						if a >= 0 && (next[drop] < 0 || c.LatUS[a] < c.LatUS[next[drop]]) {
							drop = j
						}
					}
				}
				next = append(next[:drop], next[drop+1:]...)
				if len(next) >= 3 && rapid.Bool().Draw(t, "drop_two") {
					next = next[1:]
				}
				op.Targets = next
			case how == 2:
				// overlap plus a newcomer
				op.Targets = append(append([]int(nil), cur...), rapid.IntRange(-1, 5).Draw(t, "newcomer"))
			default:
				op.Targets = genTargets(t)
			}
			cur = append([]int(nil), op.Targets...)
		case k <= 7:
			op.K, op.A, op.Up = "health", rapid.IntRange(0, 5).Draw(t, "a"), rapid.Bool().Draw(t, "up")
		default:
			op.K = "sleep"
		}
		c.Ops = append(c.Ops, op)
	}
	return c
}

type epoch struct {
	set     map[string]bool
	tCall   time.Time
	tReturn time.Time
}

func toSet(ix []int) (map[string]bool, []string) {
	m := map[string]bool{}
	var list []string
	for _, i := range ix {
		if i < 0 {
			list = append(list, "")
			continue
		}
		m[addrs[i]] = true
		list = append(list, addrs[i])
	}
	return m, list
}

func run(c Case) kit.Outcome {
	if c.Policy < 0 || c.Policy > 2 || c.Director < -2 || c.Director > 5 || c.Spinners < 1 || c.Spinners > 16 || len(c.Ops) > 100 {
		return kit.Outcome{Invalid: true}
	}
	check := func(ix []int) bool {
		if len(ix) > 32 {
			return false
		}
		for _, i := range ix {
			if i < -1 || i > 5 {
				return false
			}
		}
		return true
	}
	if !check(c.Initial) {
		return kit.Outcome{Invalid: true}
	}
	for _, op := range c.Ops {
		if !check(op.Targets) || op.A < 0 || op.A > 5 || op.SleepMS < 0 || op.SleepMS > 1000 {
			return kit.Outcome{Invalid: true}
		}
		switch op.K {
		case "update", "health", "sleep":
		default:
			return kit.Outcome{Invalid: true}
		}
	}
	frt := kit.NewFakeRT()
	if len(c.PingMS) > 6 {
		return kit.Outcome{Invalid: true}
	}
	slowProbes := false
	for i, ms := range c.PingMS {
		if ms < 0 || ms > 1000 {
			return kit.Outcome{Invalid: true}
		}
		if ms > 0 {
			slowProbes = true
			frt.SetPingLatency(addrs[i], time.Duration(ms)*time.Millisecond)
		}
	}
	if len(c.LatUS) > 6 || c.TickMS < 0 || c.TickMS > 10000 {
		return kit.Outcome{Invalid: true}
	}
	for i, us := range c.LatUS {
		if us < 0 || us > 100000 {
			return kit.Outcome{Invalid: true}
		}
		if us > 0 {
			frt.SetLatency(addrs[i], time.Duration(us)*time.Microsecond)
		}
	}
	client := rpc.NewClient(nil)
	client.Transport = frt
	client.Scheduling = rpc.Scheduling(c.Policy)
	client.DialTimeout = 400 * time.Millisecond
	client.Tick = 5 * time.Millisecond
	if c.TickMS > 0 {
		client.Tick = time.Duration(c.TickMS) * time.Millisecond
	}
	switch {
	case c.Director == -1:
		client.Director = func() string { return "" }
	case c.Director >= 0:
		d := addrs[c.Director]
		client.Director = func() string { return d }
	}
	defer client.Close()
	var emu sync.Mutex
	var epochs []epoch
	update := func(ix []int) {
		set, list := toSet(ix)
		e := epoch{set: set, tCall: time.Now()}
		client.Update(list...)
		e.tReturn = time.Now()
		emu.Lock()
		epochs = append(epochs, e)
		emu.Unlock()
	}
	// the state before the first Update: no targets
	epochs = append(epochs, epoch{set: map[string]bool{}, tCall: time.Now().Add(-time.Hour), tReturn: time.Now().Add(-time.Hour)})
	update(c.Initial)
	var stop int32
	var wg sync.WaitGroup
	var nextID int64
	forms := []string{"call", "ctx", "go", "roundtrip"}
	for s := 0; s < c.Spinners; s++ {
		wg.Add(1)
		go func(s int) {
			defer wg.Done()
			for k := 0; atomic.LoadInt32(&stop) == 0; k++ {
				id := int(atomic.AddInt64(&nextID, 1))
				tag := &kit.CallTag{ID: id, Start: time.Now()}
				kit.ClientDo(client, forms[(s+k)%len(forms)], tag)
				time.Sleep(50 * time.Microsecond)
			}
		}(s)
	}
	removedLive := false
	live := func(a string) bool {
		// an address is (probably) live if a tagged call was routed to it recently without error
		recs := frt.Records()
		for i := len(recs) - 1; i >= 0 && i >= len(recs)-200; i-- {
			if recs[i].Addr == a && recs[i].ID >= 0 && recs[i].Err == nil {
				return true
			}
		}
		return false
	}
	for _, op := range c.Ops {
		switch op.K {
		case "update":
			emu.Lock()
			prev := epochs[len(epochs)-1].set
			emu.Unlock()
			next, _ := toSet(op.Targets)
			for a := range prev {
				if !next[a] && live(a) {
					removedLive = true
				}
			}
			update(op.Targets)
		case "health":
			frt.SetDown(addrs[op.A], !op.Up)
		}
		time.Sleep(time.Duration(op.SleepMS) * time.Millisecond)
	}
	time.Sleep(250 * time.Millisecond)
	atomic.StoreInt32(&stop, 1)
	done := make(chan struct{})
	go func() { wg.Wait(); close(done) }()
	select {
	case <-done:
	case <-time.After(10 * time.Second):
		return kit.Undecided("spinning callers did not stop")
	}
	// judge every routed call
	emu.Lock()
	eps := append([]epoch(nil), epochs...)
	emu.Unlock()
	routed, toTargets := 0, 0
	for _, r := range frt.Records() {
		if r.ID < 0 || r.Addr == "" {
			continue // detector probes; error path without a target
		}
		routed++
		if c.Director >= 0 {
			if r.Addr != addrs[c.Director] {
				return kit.Fail("director-ignored", "call %d was routed to %s although the Director hook returns %s", r.ID, r.Addr, addrs[c.Director])
			}
			continue
		}
		toTargets++
		ok := false
		for i, e := range eps {
			// epoch i may be current from the moment its Update was called until the next Update returned
			from := e.tCall
			to := time.Now().Add(time.Hour)
			if i+1 < len(eps) {
				to = eps[i+1].tReturn
			}
			if !r.In.Before(from) && !r.Start.After(to) && e.set[r.Addr] {
				ok = true
				break
			}
		}
		if !ok {
			var hist []string
			for i, e := range eps {
				hist = append(hist, fmt.Sprintf("update %d: called %v returned %v targets %v", i, e.tCall.Format("15:04:05.000000"), e.tReturn.Format("15:04:05.000000"), keys(e.set)))
			}
			o := kit.Fail("routed-to-removed-target", "call %d (started %v, reached the transport %v) was routed to %s, which is in no target list that was current at any moment of that interval", r.ID, r.Start.Format("15:04:05.000000"), r.In.Format("15:04:05.000000"), r.Addr)
			o.History = hist
			return o
		}
	}
	out := kit.Outcome{Counters: map[string]int{"routed_calls": routed}, Classes: []string{fmt.Sprintf("policy=%d", c.Policy)}}
	if len(c.LatUS) > 0 {
		out.Classes = append(out.Classes, "distinct-call-latencies")
	}
	if removedLive && toTargets > 0 {
		out.Nontrivial = true
	}
	if c.Director >= 0 {
		out.Classes = append(out.Classes, "director-constant")
	}
	if slowProbes {
		out.Classes = append(out.Classes, "slow-health-probes")
	}
	return out
}

func keys(m map[string]bool) []string {
	var out []string
	for _, a := range addrs {
		if m[a] {
			out = append(out, a)
		}
	}
	return out
}

var prop = kit.Property[Case]{
	ID:    "C16",
	Level: "exploration",
	Rule:  "rapid-generated histories against a real Client whose Transport is a scripted fake RoundTripper: initial targets and 2-8 steps of Update (0-6 entries drawn from 6 addresses, with duplicates and empty strings), target health changes and sleeps of 0-150 ms, while 1-4 goroutines spin calls of the forms Call, CallWithContext, Go, RoundTrip (each call tagged with its id and start time); scheduling policy and Director (none / returns empty / constant address) drawn per case. Every Update is stamped (t_call, t_return). Oracle: every routed call with a non-empty address went to the Director's constant address, or to an address contained in a target list that was current at some moment between the call's start and its arrival at the transport. Health probes of the detector (Ping) are not calls made through the Client and are excluded. Non-trivial: an Update removed a target that had recently served calls while callers were running; distinct by SHA-1 of the case.",
	Assumptions: []string{
		"a target list counts as current from the moment Update is called until the next Update has returned (the oracle uses each call's start stamp, not only its arrival)",
		"no user-level Client.Ping is generated, so every Ping seen by the fake transport is a detector probe",
	},
	Gen: gen,
	Run: run,
}

func TestProperty(t *testing.T) { kit.Check(t, prop) }
