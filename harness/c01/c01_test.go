package c01

import (
	"bytes"
	"context"
	"crypto/sha1"
	"fmt"
	"sync"
	"testing"
	"time"

	"github.com/hslam/rpc"
	"pgregory.net/rapid"
	"verif/harness/kit"
)

// CallSpec is one call of a wave.
type CallSpec struct {
	Form   string `json:"form"` // go | roundtrip | call | ctx | ctxbuf | tcall | tgo
	Size   int    `json:"size"`
	Salt   uint32 `json:"salt"`
	Method int    `json:"method"` // handler shape 0..3
	Gated  bool   `json:"gated,omitempty"`
}

// Wave is a batch of calls issued together by one caller, then collected.
type Wave struct {
	Calls []CallSpec `json:"calls"`
	Perm  []int      `json:"perm,omitempty"` // order in which the gates of gated calls are opened
}

// Caller is one goroutine issuing waves on one connection.
type Caller struct {
	Conn  int    `json:"conn"`
	Waves []Wave `json:"waves"`
}

// Case is a workload over 1-3 connections.
type Case struct {
	M       kit.Modes `json:"modes"`
	FreeCtx bool      `json:"free_ctx,omitempty"` // context handlers call rpc.FreeContextBuffer like the repository's example service
	Conns   int       `json:"conns"`
	Callers []Caller  `json:"callers"`
}

func genSize(t *rapid.T) int {
	k := rapid.IntRange(0, 19).Draw(t, "size_class")
	switch {
	case k == 0:
		return 0
	case k == 1:
		return 1
	case k <= 4:
		return rapid.IntRange(126, 129).Draw(t, "size")
	case k <= 6:
		return rapid.IntRange(16382, 16386).Draw(t, "size")
	case k <= 8:
		return rapid.IntRange(65534, 65538).Draw(t, "size")
	case k == 9:
		if rapid.IntRange(0, 3).Draw(t, "huge") == 0 {
			return rapid.IntRange(100000, 400000).Draw(t, "size")
		}
		return rapid.IntRange(16, 70000).Draw(t, "size")
	case k == 10:
		return rapid.IntRange(16385, 32768).Draw(t, "size")
	case k <= 12:
		return rapid.IntRange(16, 4000).Draw(t, "size")
	default:
		return rapid.IntRange(16, 200).Draw(t, "size")
	}
}

func genModes(t *rapid.T) kit.Modes {
	m := kit.Modes{
		Enc:           rapid.SampledFrom(kit.Encoders).Draw(t, "enc"),
		SrvPipelining: rapid.IntRange(0, 2).Draw(t, "srv_pipe") == 0,
		SrvDirect:     rapid.Bool().Draw(t, "srv_direct"),
		CliPipelining: rapid.IntRange(0, 3).Draw(t, "cli_pipe") == 0,
		CliDirect:     rapid.Bool().Draw(t, "cli_direct"),
		Link:          rapid.SampledFrom([]string{"frame", "bytes", "bytes"}).Draw(t, "link"),
	}
	if m.Link == "bytes" {
		m.Chunk = rapid.SampledFrom([]int{0, 1, 2, 7, 64, 4096}).Draw(t, "chunk")
	}
	// server in context-buffer mode (handlers that take a context get the request's buffer)
	m.CtxBuf = rapid.IntRange(0, 2).Draw(t, "ctx_buf") == 0
	kit.DrawBuffers(t, &m)
	return m
}

func gen(t *rapid.T) Case {
	c := Case{M: genModes(t)}
	c.FreeCtx = c.M.CtxBuf && rapid.Bool().Draw(t, "free_ctx")
	c.Conns = rapid.IntRange(1, 3).Draw(t, "conns")
	ncallers := rapid.IntRange(1, 8).Draw(t, "callers")
	if rapid.IntRange(0, 5).Draw(t, "many") == 0 {
		ncallers = rapid.IntRange(8, 16).Draw(t, "callers2")
	}
	forms := []string{"go", "go", "roundtrip", "call", "ctx", "ctxbuf"}
	if c.M.Link == "bytes" {
		forms = append(forms, "tcall", "tgo")
	}
	for i := 0; i < ncallers; i++ {
		cl := Caller{Conn: rapid.IntRange(0, c.Conns-1).Draw(t, "conn")}
		nw := rapid.IntRange(1, 4).Draw(t, "waves")
		for w := 0; w < nw; w++ {
			var wave Wave
			nc := rapid.IntRange(1, 12).Draw(t, "ncalls")
			gated := 0
			for k := 0; k < nc; k++ {
				cs := CallSpec{
					Form:   rapid.SampledFrom(forms).Draw(t, "form"),
					Size:   genSize(t),
					Salt:   rapid.Uint32().Draw(t, "salt"),
					Method: rapid.IntRange(0, 3).Draw(t, "method"),
				}
				if !c.M.SrvPipelining && !c.M.CliPipelining && cs.Size >= kit.HeaderLen && rapid.IntRange(0, 2).Draw(t, "gated") > 0 {
					cs.Gated = true
					gated++
				}
				wave.Calls = append(wave.Calls, cs)
			}
			if gated > 1 {
				wave.Perm = rapid.Permutation(seq(gated)).Draw(t, "perm")
			}
			cl.Waves = append(cl.Waves, wave)
		}
		c.Callers = append(c.Callers, cl)
	}
	return c
}

func seq(n int) []int {
	s := make([]int, n)
	for i := range s {
		s[i] = i
	}
	return s
}

const bound = 10 * time.Second

type issued struct {
	spec  CallSpec
	id    uint64
	args  []byte
	reply []byte
	err   error
	done  bool
}

func run(c Case) kit.Outcome {
	if !c.M.Valid() || c.Conns < 1 || c.Conns > 8 || len(c.Callers) == 0 || len(c.Callers) > 64 {
		return kit.Outcome{Invalid: true}
	}
	total := 0
	for _, cl := range c.Callers {
		if cl.Conn < 0 || cl.Conn >= c.Conns {
			return kit.Outcome{Invalid: true}
		}
		for _, w := range cl.Waves {
			g := 0
			for _, cs := range w.Calls {
				if cs.Size < 0 || cs.Size > 1<<20 || cs.Method < 0 || cs.Method > 3 {
					return kit.Outcome{Invalid: true}
				}
				if cs.Gated {
					if cs.Size < kit.HeaderLen || c.M.SrvPipelining || c.M.CliPipelining {
						return kit.Outcome{Invalid: true}
					}
					g++
				}
				if (cs.Form == "tcall" || cs.Form == "tgo") && c.M.Link != "bytes" {
					return kit.Outcome{Invalid: true}
				}
				total++
			}
			if len(w.Perm) > 0 {
				if len(w.Perm) != g {
					return kit.Outcome{Invalid: true}
				}
				seen := map[int]bool{}
				for _, p := range w.Perm {
					if p < 0 || p >= g || seen[p] {
						return kit.Outcome{Invalid: true}
					}
					seen[p] = true
				}
			}
		}
	}
	if total > 2000 {
		return kit.Outcome{Invalid: true}
	}
	if c.FreeCtx && !c.M.CtxBuf {
		return kit.Outcome{Invalid: true}
	}
	s, err := kit.NewSession(c.M)
	if err != nil {
		return kit.Undecided("%v", err)
	}
	defer s.Close()
	s.Env.FreeCtx = c.FreeCtx
	for i := 0; i < c.Conns; i++ {
		if _, err := s.Dial(); err != nil {
			return kit.Undecided("dial: %v", err)
		}
	}
	var tr *rpc.Transport
	if c.M.Link == "bytes" {
		tr = &rpc.Transport{Options: c.M.Options(s.Net), MaxConnsPerHost: 2, MaxIdleConnsPerHost: 2}
		defer tr.Close()
	}

	var all []*issued
	var wg sync.WaitGroup
	nextID := uint64(0)
	maxOutstanding := 0
	permuted, smallChunk, big := false, false, false
	unexpectedErrs := 0
	for ci := range c.Callers {
		cl := c.Callers[ci]
		conn := s.Conns[cl.Conn]
		// pre-assign ids deterministically
		waves := make([][]*issued, len(cl.Waves))
		for wi, w := range cl.Waves {
			for _, cs := range w.Calls {
				nextID++
				is := &issued{spec: cs, id: nextID}
				dir := byte(kit.DirEcho)
				if cs.Gated {
					dir = kit.DirGate
				}
				is.args = kit.MakePayload(is.id, dir, cs.Salt, cs.Size)
				is.reply = []byte("sentinel")
				waves[wi] = append(waves[wi], is)
				all = append(all, is)
				if cs.Size > 65536 {
					big = true
				}
				if c.M.Link == "bytes" && c.M.Chunk > 0 && c.M.Chunk < 16 {
					smallChunk = true
				}
			}
			if len(w.Calls) > maxOutstanding {
				maxOutstanding = len(w.Calls)
			}
			for i, p := range w.Perm {
				if p != i {
					permuted = true
				}
			}
		}
		wg.Add(1)
		go func() {
			defer wg.Done()
			for wi, w := range cl.Waves {
				calls := waves[wi]
				var cwg sync.WaitGroup
				var gatedIDs []uint64
				for _, is := range calls {
					is := is
					if is.spec.Gated {
						gatedIDs = append(gatedIDs, is.id)
					}
					method := kit.Methods[is.spec.Method]
					cwg.Add(1)
					finish := func(err error) {
						is.err, is.done = err, true
						cwg.Done()
					}
					switch is.spec.Form {
					case "go", "roundtrip", "tgo":
						ch := make(chan *rpc.Call, 1)
						var call *rpc.Call
						switch is.spec.Form {
						case "go":
							call = conn.Go(method, &is.args, &is.reply, ch)
						case "tgo":
							call = tr.Go(s.Addr, method, &is.args, &is.reply, ch)
						default:
							call = conn.RoundTrip(&rpc.Call{ServiceMethod: method, Args: &is.args, Reply: &is.reply, Done: ch})
						}
						go func() {
							select {
							case <-ch:
								finish(call.Error)
							case <-time.After(bound):
								finish(errTimeout)
							}
						}()
					default:
						go func() {
							resc := make(chan error, 1)
							go func() {
								switch is.spec.Form {
								case "call":
									resc <- conn.Call(method, &is.args, &is.reply)
								case "tcall":
									resc <- tr.Call(s.Addr, method, &is.args, &is.reply)
								case "ctx":
									resc <- conn.CallWithContext(context.Background(), method, &is.args, &is.reply)
								default:
									buf := make([]byte, is.spec.Size+8)
									ctx := context.WithValue(context.Background(), rpc.BufferContextKey, buf[:0])
									resc <- conn.CallWithContext(ctx, method, &is.args, &is.reply)
								}
							}()
							select {
							case err := <-resc:
								finish(err)
							case <-time.After(bound):
								finish(errTimeout)
							}
						}()
					}
				}
				// open the gates of this wave in the drawn order once all gated handlers run
				if len(gatedIDs) > 0 {
					s.Env.WaitStartedIDs(gatedIDs, bound)
					order := w.Perm
					if len(order) == 0 {
						order = seq(len(gatedIDs))
					}
					for _, p := range order {
						s.Env.Open(gatedIDs[p])
					}
				}
				cwg.Wait()
			}
		}()
	}
	wg.Wait()
	// judge
	log := s.Env.Log()
	byID := map[uint64][]kit.Exec{}
	for _, e := range log {
		byID[e.ID] = append(byID[e.ID], e)
	}
	ok := 0
	var timedOut *issued
	for _, is := range all {
		if is.err == errTimeout {
			// judged after the completed calls: a wrong reply elsewhere in the case is still reported
			if timedOut == nil {
				timedOut = is
			}
			continue
		}
		if is.err != nil {
			unexpectedErrs++
			continue
		}
		ok++
		want := kit.Transform(is.args)
		if !bytes.Equal(is.reply, want) {
			o := kit.Fail("wrong-reply", "call %d (%s via %s, %d bytes) completed without error but its reply is not the handler's result for its own arguments: got %s want %s%s", is.id, is.spec.Form, kit.Methods[is.spec.Method], is.spec.Size, kit.Brief(is.reply), kit.Brief(want), whose(all, is))
			o.Sig = c.M.Sig()
			return o
		}
		if is.spec.Size >= kit.HeaderLen {
			ex := byID[is.id]
			if len(ex) == 0 {
				return kit.Fail("no-execution", "call %d succeeded but no handler execution for it was logged", is.id)
			}
			if ex[0].ArgsSHA != sha1.Sum(is.args) {
				return kit.Fail("handler-saw-other-args", "the handler of call %d received arguments that differ from what the caller sent (%d bytes logged, %d sent)", is.id, ex[0].ArgsLen, len(is.args))
			}
		}
	}
	if timedOut != nil {
		return kit.Undecided("call %d (%s, %d bytes) did not complete within %v in a fault-free run", timedOut.id, timedOut.spec.Form, timedOut.spec.Size, bound)
	}
	out := kit.Outcome{Counters: map[string]int{"calls": len(all), "ok": ok, "unexpected_errors": unexpectedErrs}}
	if maxOutstanding >= 2 && ok >= 2 && (permuted || smallChunk || big) {
		out.Nontrivial = true
	}
	if permuted {
		out.Classes = append(out.Classes, "permuted-completion")
	}
	if smallChunk {
		out.Classes = append(out.Classes, "chunk<16")
	}
	if big {
		out.Classes = append(out.Classes, "payload>64KiB")
	}
	out.Classes = append(out.Classes, "link="+c.M.Link, "enc="+c.M.Enc)
	if c.M.Poll {
		out.Classes = append(out.Classes, "poll")
	}
	if c.M.SrvPipelining {
		out.Classes = append(out.Classes, "srv-pipelining")
	}
	if c.M.CliPipelining {
		out.Classes = append(out.Classes, "cli-pipelining")
	}
	if unexpectedErrs > 0 {
		out.Classes = append(out.Classes, "had-unexpected-errors")
	}
	return out
}

var errTimeout = fmt.Errorf("harness: timeout")

// whose says whose reply a wrong reply looks like.
func whose(all []*issued, me *issued) string {
	for _, o := range all {
		if o != me && bytes.Equal(me.reply, kit.Transform(o.args)) {
			return fmt.Sprintf(" (it is the reply of call %d)", o.id)
		}
	}
	return ""
}

var prop = kit.Property[Case]{
	ID:    "C01",
	Level: "exploration",
	Rule: "rapid-generated workloads: 1-3 real connections to one real Server (4 header encoders x multiplexing/pipelining x direct/async IO on both sides) over a frame link or an in-memory byte link with read chunks of 1,2,7,64,4096,unlimited bytes; 1-16 concurrent callers issue 1-4 waves of 1-12 calls (Go, RoundTrip, Call, CallWithContext with/without context buffer, Transport.Call/Go) with unique self-describing payloads of 0,1,126-129,16382-16386,65534-65538 and 100-400 KB bytes to all four handler shapes; on multiplexing servers the harness gates handlers and opens them in a drawn permutation once the whole wave is executing. Oracle: reply == bitwise-NOT of own arguments, handler-logged SHA-1 == SHA-1 of own arguments. Non-trivial: >= 2 calls outstanding on one connection and (non-identity completion permutation, or read chunk < 16 bytes, or payload > 64 KiB); distinct by SHA-1 of the case.",
	Assumptions: []string{
		"interleavings inside the library that have no I/O boundary are sampled (GOMAXPROCS varied across shards), not owned",
		"calls that fail in a fault-free run are counted (unexpected_errors) but are not a C01 violation; a call that never completes makes the run undecided (exit 2)",
	},
	Gen: gen,
	Run: run,
}

func TestProperty(t *testing.T) { kit.Check(t, prop) }
