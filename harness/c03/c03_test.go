package c03

import (
	"bytes"
	"context"
	"fmt"
	"io"
	"testing"
	"time"

	"github.com/hslam/rpc"
	"pgregory.net/rapid"
	"verif/harness/kit"
)

// Case is a workload on one connection plus one fault.
type Case struct {
	M         kit.Modes `json:"modes"`
	Calls     int       `json:"calls"` // gated unary calls
	Sizes     []int     `json:"sizes"`
	Forms     []string  `json:"forms"` // go | call | ctx, cycled
	Pings     int       `json:"pings"`
	Stream    bool      `json:"stream"`
	OpenGates int       `json:"open_gates"` // gates opened (each awaited) before the close-type fault
	Fault     string    `json:"fault"`      // cut | cclose | srvclose
	Dir       string    `json:"dir,omitempty"`  // cut: cs | sc
	K         int64     `json:"k,omitempty"`    // cut: byte offset in that direction
	Kind      string    `json:"kind,omitempty"` // cut: eof | io
}

func genModes(t *rapid.T) kit.Modes {
	m := genModes0(t)
	kit.DrawBuffers(t, &m)
	return m
}

func genModes0(t *rapid.T) kit.Modes {
	return kit.Modes{
		Enc:           rapid.SampledFrom(kit.Encoders).Draw(t, "enc"),
		SrvPipelining: false,
		SrvDirect:     rapid.Bool().Draw(t, "srv_direct"),
		CliPipelining: rapid.IntRange(0, 3).Draw(t, "cli_pipe") == 0,
		CliDirect:     rapid.Bool().Draw(t, "cli_direct"),
		Link:          "bytes",
		Chunk:         rapid.SampledFrom([]int{0, 0, 1, 7, 64}).Draw(t, "chunk"),
	}
}

func gen(t *rapid.T) Case {
	c := Case{M: genModes(t)}
	c.Calls = rapid.IntRange(1, 8).Draw(t, "calls")
	ns := rapid.IntRange(1, 3).Draw(t, "nsizes")
	for i := 0; i < ns; i++ {
		c.Sizes = append(c.Sizes, rapid.SampledFrom([]int{16, 40, 128, 129, 1000, 20000}).Draw(t, "size"))
	}
	nf := rapid.IntRange(1, 3).Draw(t, "nforms")
	for i := 0; i < nf; i++ {
		c.Forms = append(c.Forms, rapid.SampledFrom([]string{"go", "call", "ctx"}).Draw(t, "form"))
	}
	c.Pings = rapid.IntRange(0, 2).Draw(t, "pings")
	c.Stream = rapid.IntRange(0, 2).Draw(t, "stream") == 0
	c.OpenGates = rapid.IntRange(0, c.Calls).Draw(t, "open_gates")
	c.Fault = rapid.SampledFrom([]string{"cut", "cut", "cut", "cclose", "srvclose"}).Draw(t, "fault")
	if c.Fault == "cut" {
		c.Dir = rapid.SampledFrom([]string{"cs", "sc"}).Draw(t, "dir")
		c.Kind = rapid.SampledFrom([]string{"eof", "io"}).Draw(t, "kind")
		// offsets concentrate on the region where traffic exists
		total := 0
		for i := 0; i < c.Calls; i++ {
			total += c.Sizes[i%len(c.Sizes)] + 30
		}
		c.K = int64(rapid.IntRange(0, total+40).Draw(t, "k"))
	}
	return c
}

// fixed regression workloads whose cut offsets are enumerated completely
func fixedWorkloads() []Case {
	return []Case{
		{Calls: 3, Sizes: []int{40}, Forms: []string{"go", "call", "ctx"}, Pings: 1, Stream: false, OpenGates: 3},
		{Calls: 2, Sizes: []int{129, 16}, Forms: []string{"go"}, Pings: 0, Stream: true, OpenGates: 1},
		{Calls: 4, Sizes: []int{16, 300}, Forms: []string{"call", "go"}, Pings: 2, Stream: false, OpenGates: 2},
	}
}

func enum(tier string, yield func(Case)) {
	type mode struct{ cd, sd, cp bool }
	modes := []mode{{false, false, false}, {true, true, false}, {false, true, true}}
	if tier == "thorough" {
		modes = append(modes, mode{true, false, false}, mode{false, false, true}, mode{true, true, true})
	}
	mi := 0
	for _, enc := range kit.Encoders {
		for _, w := range fixedWorkloads() {
			m := modes[mi%len(modes)]
			mi++
			w.M = kit.Modes{Enc: enc, Link: "bytes", CliDirect: m.cd, SrvDirect: m.sd, CliPipelining: m.cp}
			// baseline run to learn the transcript lengths
			base := w
			base.Fault = "none"
			_, lcs, lsc := execute(base)
			for _, dir := range []string{"cs", "sc"} {
				l := lcs
				if dir == "sc" {
					l = lsc
				}
				for k := int64(0); k <= l; k++ {
					for _, kind := range []string{"eof", "io"} {
						if tier != "thorough" && kind == "io" && k%3 != 0 {
							continue
						}
						c := w
						c.Fault, c.Dir, c.K, c.Kind = "cut", dir, k, kind
						yield(c)
					}
				}
			}
			for _, f := range []string{"cclose", "srvclose"} {
				for g := 0; g <= w.Calls; g++ {
					c := w
					c.Fault, c.OpenGates = f, g
					yield(c)
				}
			}
		}
	}
}

const (
	bound  = 10 * time.Second
	prompt = 2 * time.Second
)

func timing(clause, format string, a ...interface{}) kit.Outcome {
	o := kit.Fail(clause, format, a...)
	o.Timing = true
	return o
}

type live struct {
	id    uint64
	form  string
	ping  bool
	args  []byte
	reply []byte
	ret   chan error
	err   error
	done  bool
	seq   uint64
	seqOK bool
}

func run(c Case) kit.Outcome {
	o, _, _ := execute(c)
	return o
}

func valid(c Case) bool {
	if !c.M.Valid() || c.M.Link != "bytes" || c.M.SrvPipelining || c.Calls < 1 || c.Calls > 32 || len(c.Sizes) == 0 || len(c.Forms) == 0 || c.Pings < 0 || c.Pings > 8 || c.OpenGates < 0 || c.OpenGates > c.Calls {
		return false
	}
	for _, s := range c.Sizes {
		if s < kit.HeaderLen || s > 1<<20 {
			return false
		}
	}
	for _, f := range c.Forms {
		if f != "go" && f != "call" && f != "ctx" {
			return false
		}
	}
	switch c.Fault {
	case "none", "cclose", "srvclose":
	case "cut":
		if (c.Dir != "cs" && c.Dir != "sc") || (c.Kind != "eof" && c.Kind != "io") || c.K < 0 {
			return false
		}
	default:
		return false
	}
	return true
}

// execute runs the case; it also returns the transcript lengths (client->server, server->client).
func execute(c Case) (kit.Outcome, int64, int64) {
	if !valid(c) {
		return kit.Outcome{Invalid: true}, 0, 0
	}
	sig := fmt.Sprintf("fault=%s dir=%s kind=%s cd=%v sd=%v cp=%v", c.Fault, c.Dir, c.Kind, c.M.CliDirect, c.M.SrvDirect, c.M.CliPipelining)
	var hist []string
	h := func(f string, a ...interface{}) { hist = append(hist, fmt.Sprintf(f, a...)) }
	fail := func(o kit.Outcome) (kit.Outcome, int64, int64) { o.History, o.Sig = hist, sig; return o, 0, 0 }

	s, err := kit.NewSession(c.M)
	if err != nil {
		return kit.Undecided("%v", err), 0, 0
	}
	defer s.Close()
	s.Net.Record = true
	var cutErr error = io.EOF
	if c.Kind == "io" {
		cutErr = kit.ErrCutIO
	}
	if c.Fault == "cut" {
		s.Net.CutPlan = func(mc *kit.MemConn) {
			if c.Dir == "sc" {
				mc.CutInbound(c.K, cutErr)
			} else {
				mc.Peer().CutInbound(c.K, cutErr)
			}
		}
	}
	s.Env.SetStreamPlan(0, kit.StreamPlan{Behaviour: "echo", Reads: -1})
	conn, err := s.Dial()
	if err != nil {
		return kit.Undecided("dial: %v", err), 0, 0
	}
	mc := s.Net.ClientConns("")[0]
	fired := func() bool { return mc.CutFired() || mc.Peer().CutFired() }

	// optional stream with a blocked reader
	var streamRead chan error
	if c.Stream {
		oc := make(chan rpc.Stream, 1)
		go func() {
			st, _ := conn.NewStream("S.Stream0")
			oc <- st
		}()
		select {
		case st := <-oc:
			if st != nil {
				streamRead = make(chan error, 1)
				go func() {
					var m []byte
					streamRead <- st.ReadMessage(nil, &m)
				}()
			}
		case <-time.After(bound):
			return fail(timing("hang", "NewStream did not return within %v (fault %s)", bound, c.Fault))
		}
	}
	var calls []*live
	issue := func(l *live) {
		l.ret = make(chan error, 1)
		switch {
		case l.ping:
			go func() { l.ret <- conn.Ping() }()
		case l.form == "go":
			call := conn.Go("S.Echo", &l.args, &l.reply, make(chan *rpc.Call, 1))
			go func() { <-call.Done; l.ret <- call.Error }()
		case l.form == "call":
			go func() { l.ret <- conn.Call("S.EchoRet", &l.args, &l.reply) }()
		default:
			go func() { l.ret <- conn.CallWithContext(context.Background(), "S.EchoCtx", &l.args, &l.reply) }()
		}
	}
	await := func(l *live, d time.Duration) bool {
		if l.done {
			return true
		}
		select {
		case l.err = <-l.ret:
			l.done = true
			return true
		case <-time.After(d):
			return false
		}
	}
	for i := 0; i < c.Calls; i++ {
		l := &live{id: uint64(i + 1), form: c.Forms[i%len(c.Forms)]}
		l.args = kit.MakePayload(l.id, kit.DirGate, uint32(i), c.Sizes[i%len(c.Sizes)])
		calls = append(calls, l)
		issue(l)
		// wait until the handler runs, or the connection is already lost
		dl := time.Now().Add(bound)
		for !s.Env.WaitStartedIDs([]uint64{l.id}, 200*time.Microsecond) {
			if fired() || l.done || await(l, 0) {
				break
			}
			if time.Now().After(dl) {
				return fail(kit.Undecided("request %d neither reached its handler nor was the connection cut", i))
			}
		}
	}
	for i := 0; i < c.Pings; i++ {
		l := &live{id: uint64(100 + i), ping: true}
		calls = append(calls, l)
		issue(l)
	}
	for _, l := range calls {
		if l.ping && !fired() {
			await(l, 200*time.Millisecond)
		}
	}
	h("%d calls issued (gated), %d pings, stream=%v, cut fired so far: %v", c.Calls, c.Pings, c.Stream, fired())
	// open some gates, awaiting each response
	for i := 0; i < c.OpenGates; i++ {
		s.Env.Open(calls[i].id)
		if !fired() {
			dl := time.Now().Add(bound)
			for !await(calls[i], 300*time.Microsecond) {
				if fired() {
					break
				}
				if time.Now().After(dl) {
					return fail(timing("hang", "call %d did not complete within %v after its handler returned (no fault yet)", i, bound))
				}
			}
		}
	}
	faultAt := time.Now()
	switch c.Fault {
	case "cclose":
		h("Conn.Close -> %v", conn.Close())
	case "srvclose":
		s.Srv.Close()
		h("Server.Close")
	}
	// the rest of the traffic flows (and hits the cut, if one is planned within it)
	s.Env.OpenAll()
	faulty := c.Fault == "cclose" || c.Fault == "srvclose"
	// (i) nobody hangs
	for _, l := range calls {
		if !await(l, bound) {
			what := fmt.Sprintf("%s call %d", l.form, l.id)
			if l.ping {
				what = "ping"
			}
			return fail(timing("caller-hangs", "%s was still blocked %v after the connection was lost (%s)", what, bound, sig))
		}
	}
	if streamRead != nil && (faulty || fired()) {
		select {
		case err := <-streamRead:
			if err != rpc.ErrStreamShutdown {
				return fail(kit.Fail("stream-wrong-error", "the blocked stream reader returned %v after the connection was lost", err))
			}
		case <-time.After(bound):
			return fail(timing("caller-hangs", "a blocked Stream.ReadMessage was still blocked %v after the connection was lost", bound))
		}
	}
	lost := faulty || fired()
	h("all callers returned %v after the fault; connection lost: %v", time.Since(faultAt), lost)
	lcs, lsc := int64(len(mc.Peer().Transcript())), int64(len(mc.Transcript()))
	if !lost {
		// the planned cut lies beyond the traffic (or no fault): everything must have succeeded
		for _, l := range calls {
			if l.err != nil {
				return fail(kit.Undecided("call %d failed (%v) although no fault happened", l.id, l.err))
			}
		}
		return kit.Outcome{Classes: []string{"no-fault-reached"}}, lcs, lsc
	}
	// (ii) once a caller has been told about the loss (an outstanding call failed, or a probe
	// fails), a call started afterwards fails at once with ErrShutdown. Until then the client
	// may not have noticed yet (for instance Server.Close closes connections asynchronously).
	probe := func(id uint64) (error, bool) {
		args := kit.MakePayload(id, kit.DirEcho, 1, 32)
		var reply []byte
		rc := make(chan error, 1)
		go func() { rc <- conn.Call("S.Echo", &args, &reply) }()
		select {
		case err := <-rc:
			if err == nil && !bytes.Equal(reply, kit.Transform(args)) {
				return fmt.Errorf("wrong reply"), true
			}
			return err, true
		case <-time.After(prompt):
			return nil, false
		}
	}
	// "told" = some caller got ErrShutdown, the library's own signal that it knows the connection
	// is down (a write error alone does not mark the connection: the reader may not have seen
	// the end yet)
	told := false
	for _, l := range calls {
		if l.err == rpc.ErrShutdown {
			told = true
		}
	}
	dl := time.Now().Add(bound)
	for n := uint64(0); !told; n++ {
		err, ok := probe(700 + n)
		if !ok {
			return fail(timing("later-call-blocks", "a call started after %s neither succeeded nor failed within %v", c.Fault, prompt))
		}
		if err == rpc.ErrShutdown {
			told = true
			break
		}
		if time.Now().After(dl) {
			if c.Fault == "cut" {
				// the cut fired in the server's inbound direction and the server has not torn the connection down
				return fail(timing("loss-not-noticed", "no call has failed with ErrShutdown %v after the connection was cut", bound))
			}
			return fail(timing("loss-not-noticed", "no call has failed with ErrShutdown %v after %s", bound, c.Fault))
		}
		time.Sleep(200 * time.Microsecond)
	}
	{
		err, ok := probe(799)
		if !ok {
			return fail(timing("later-call-blocks", "a call started after the connection was lost did not fail within %v", prompt))
		}
		if err != rpc.ErrShutdown {
			return fail(kit.Fail("later-call-wrong-error", "a call started after the connection was lost (a caller had already been told) returned %v, expected ErrShutdown", err))
		}
	}
	// sequence numbers of the requests (client->server transcript) and fully delivered responses
	reqFrames := kit.ParseFrames(mc.Peer().Transcript())
	pingSeqs := []uint64{}
	for _, f := range reqFrames {
		hd, err := kit.RefDecodeRequest(c.M.Enc, f)
		if err != nil {
			continue
		}
		if id, _, ok := kit.ParsePayload(hd.Args); ok && id >= 1 && int(id) <= c.Calls {
			calls[id-1].seq, calls[id-1].seqOK = hd.Seq, true
		} else if len(hd.Upgrade) == 1 && hd.Upgrade[0]&kit.FlagHeartbeat != 0 {
			pingSeqs = append(pingSeqs, hd.Seq)
		}
	}
	_ = pingSeqs
	delivered := mc.Delivered()
	sc := mc.Transcript()
	if delivered > int64(len(sc)) {
		delivered = int64(len(sc))
	}
	full := map[uint64]bool{}
	for _, f := range kit.ParseFrames(sc[:delivered]) {
		if hd, err := kit.RefDecodeResponse(c.M.Enc, f); err == nil {
			full[hd.Seq] = true
		}
	}
	nFull, nFailed, nOK := 0, 0, 0
	orderly := c.Fault != "cut" || c.Kind == "eof"
	for _, l := range calls {
		if l.err == nil {
			nOK++
			if !l.ping && !bytes.Equal(l.reply, kit.Transform(l.args)) {
				return fail(kit.Fail("wrong-reply", "call %d completed without error but with a wrong reply", l.id))
			}
		} else {
			nFailed++
			// a call whose request could not even be written reports the transport's write error
			if orderly && l.err != rpc.ErrShutdown && l.seqOK && !l.ping {
				return fail(kit.Fail("wrong-error", "call %d outstanding at an orderly end of the connection (%s) failed with %q, expected ErrShutdown", l.id, c.Fault, l.err))
			}
		}
		if l.ping || !l.seqOK {
			continue
		}
		if full[l.seq] {
			nFull++
			if l.err != nil && c.Fault != "cclose" {
				o := kit.Fail("received-response-dropped", "the response of call %d (seq %d) was completely received by the client before the connection was lost (%d bytes delivered), but the call failed with %q", l.id, l.seq, delivered, l.err)
				return fail(o)
			}
		}
	}
	out := kit.Outcome{Counters: map[string]int{"calls_failed": nFailed, "calls_ok": nOK, "numcalls_after": int(conn.NumCalls())}}
	out.Classes = append(out.Classes, "fault="+c.Fault, "enc="+c.M.Enc)
	if c.Fault == "cut" {
		out.Classes = append(out.Classes, "dir="+c.Dir, "kind="+c.Kind)
		// inside a frame?
		var tr []byte
		if c.Dir == "sc" {
			tr = sc
		} else {
			tr = mc.Peer().Transcript()
		}
		inside := false
		if c.K <= int64(len(tr)) {
			consumed := int64(0)
			for _, f := range kit.ParseFrames(tr[:c.K]) {
				consumed += int64(len(f)) + int64(uvarintLen(uint64(len(f))))
			}
			inside = consumed != c.K
		}
		if inside {
			out.Classes = append(out.Classes, "cut-inside-frame")
			out.Nontrivial = true
		}
	}
	if nFailed >= 2 || (nFull >= 1 && nFailed >= 1) {
		out.Nontrivial = true
	}
	if nFull >= 1 && nFailed >= 1 {
		out.Classes = append(out.Classes, "delivered-and-undelivered")
	}
	return out, lcs, lsc
}

func uvarintLen(v uint64) int {
	n := 1
	for v >= 0x80 {
		v >>= 7
		n++
	}
	return n
}

var prop = kit.Property[Case]{
	ID:    "C03",
	Level: "fault_enumeration",
	Rule:  "enumeration: for 3 fixed workloads (gated unary calls of several forms, pings, an open stream with a blocked reader, some responses already delivered) x 4 header encoders (cycling client/server IO modes incl. client pipelining) the connection - a real Conn to a real Server over an in-memory byte link under the library's own framing - is cut at EVERY byte offset of the observed transcript, in either direction, delivered as orderly close (and as an I/O error at every 3rd offset in quick, every offset in thorough), plus Conn.Close and Server.Close after every number of delivered responses; plus rapid-generated workloads (1-8 calls, sizes to 20 KB, read chunks 1/7/64) with drawn cut offsets, kinds and close events. Oracle: every outstanding call/ping/stream read returns within 10 s with a non-nil error (ErrShutdown for an orderly end), a later call fails with ErrShutdown within 2 s, successful calls carry their own reply, and every call whose response frame lies completely within the bytes the client had read returns nil (frame boundaries parsed from the recorded transcript). Non-trivial: the cut lies strictly inside a frame, or >= 2 calls fail, or >= 1 fully delivered and >= 1 undelivered response; distinct by SHA-1 of the case.",
	Assumptions: []string{
		"bounds 10 s / 2 s must reproduce in isolation (rule T)",
		"for a local Conn.Close the clause about completely received responses is not asserted (the moment of the cut is the caller's own action)",
		"NumCalls after the loss is recorded, not asserted",
	},
	Gen:            gen,
	Enum:           enum,
	EnumExhaustive: []string{"every byte offset of both directions of the transcript of 3 fixed workloads x 4 header encoders, orderly close", "Conn.Close / Server.Close after every number of delivered responses"},
	Run:            run,
}

func TestProperty(t *testing.T) { kit.Check(t, prop) }
