package c04

import (
	"context"
	"crypto/sha1"
	"fmt"
	"sync"
	"sync/atomic"
	"testing"
	"time"

	"github.com/hslam/rpc"
	"pgregory.net/rapid"
	"verif/harness/kit"
)

// Item is one request of a wire-mode case or one step of a transport-mode case.
type Item struct {
	Kind   string `json:"kind"` // wire: call|fail|unknown|ping|sopen|sdata|sclose   transport: call|kill|restart
	Method int    `json:"method,omitempty"`
	Size   int    `json:"size,omitempty"`
	Salt   uint32 `json:"salt,omitempty"`
	Gated  bool   `json:"gated,omitempty"`
	Stream int    `json:"stream,omitempty"` // sdata/sclose: which opened stream (index among sopen items)
	Form   string `json:"form,omitempty"`   // transport: call|go|ctx|roundtrip|ccall|cgo (c* through a Client)
	Addr   int    `json:"addr,omitempty"`
}

// Case is one connection's request list (wire) or a call/kill/restart history (transport).
type Case struct {
	Mode          string  `json:"mode"` // wire | transport
	Enc           string  `json:"enc"`
	SrvPipelining bool    `json:"srv_pipelining"`
	SrvDirect     bool    `json:"srv_direct"`
	Items         []Item  `json:"items"`
	Batches       []int   `json:"batches,omitempty"`
	Drop          int     `json:"drop"` // wire: -1 none; otherwise the client disconnects after this many items
	DropQuiet     bool    `json:"drop_quiet,omitempty"`
	SrvBuf        int     `json:"srv_buf,omitempty"` // wire mode: Server.SetBufferSize (0 = default)
	Unix          bool    `json:"unix,omitempty"`    // wire mode over real unix sockets
	Poll          bool    `json:"poll,omitempty"`    // ... against a poll-mode server
	Servers       int     `json:"servers,omitempty"`
	Rounds        []Round `json:"rounds,omitempty"` // churn mode: one short-lived connection per round
	Hold          int     `json:"hold,omitempty"`   // churn mode: connections opened on every server at its start and kept open
}

// Round is one short-lived connection of a churn case: it connects (optionally after a silent
// visitor connected and left, and before or after the previous round's connection is closed),
// writes its requests with one write call and waits for the answers.
type Round struct {
	Srv       int    `json:"srv,omitempty"` // which of the case's servers
	Conns     int    `json:"conns"`         // connections dialed back to back in this round
	Reqs      int    `json:"reqs"`
	Batch     int    `json:"batch,omitempty"` // requests per write call
	Size      int    `json:"size"`
	Salt      uint32 `json:"salt,omitempty"`
	Visitor   bool   `json:"visitor,omitempty"`   // an empty connection is opened and closed just before
	KeepPrev  bool   `json:"keep_prev,omitempty"` // the previous round's connection is closed after this one dialed
	NoWaitPrv bool   `json:"no_wait_prev,omitempty"`
}

func genChurn(t *rapid.T, c *Case) {
	c.Unix = true
	c.Poll = rapid.IntRange(0, 3).Draw(t, "poll") > 0
	c.Servers = rapid.IntRange(1, 6).Draw(t, "servers")
	if rapid.IntRange(0, 3).Draw(t, "hold") == 0 {
		// more connections than a poll-mode server has dedicated workers: the rest share workers
		c.Hold = rapid.IntRange(17, 24).Draw(t, "held")
		c.Servers = rapid.IntRange(1, 2).Draw(t, "servers2")
	}
	n := rapid.IntRange(3, 30).Draw(t, "rounds")
	for i := 0; i < n; i++ {
		c.Rounds = append(c.Rounds, Round{
			Srv:      rapid.IntRange(0, c.Servers-1).Draw(t, "srv"),
			Conns:    rapid.IntRange(1, 4).Draw(t, "conns"),
			Reqs:     rapid.SampledFrom([]int{1, 2, 4, 30, 60, 120, 250}).Draw(t, "reqs"),
			Batch:    rapid.SampledFrom([]int{1, 2, 8, 64}).Draw(t, "batch"),
			Size:     rapid.SampledFrom([]int{16, 17, 64, 200, 1000, 20000}).Draw(t, "size"),
			Salt:     rapid.Uint32().Draw(t, "salt"),
			Visitor:  rapid.IntRange(0, 2).Draw(t, "visitor") == 0,
			KeepPrev: rapid.IntRange(0, 3).Draw(t, "keep_prev") == 0,
		})
	}
	c.Drop = -1
}

func genWire(t *rapid.T, c *Case) {
	n := rapid.IntRange(1, 200).Draw(t, "n")
	if rapid.IntRange(0, 2).Draw(t, "few") > 0 {
		n = rapid.IntRange(1, 25).Draw(t, "n2")
	}
	streams := 0
	open := []int{}
	for i := 0; i < n; i++ {
		k := rapid.IntRange(0, 19).Draw(t, "kind")
		it := Item{Salt: rapid.Uint32().Draw(t, "salt"), Method: rapid.IntRange(0, 3).Draw(t, "method")}
		it.Size = rapid.SampledFrom([]int{16, 17, 64, 90, 100, 128, 129, 1000, 3400, 16384, 66000}).Draw(t, "size")
		switch {
		case k <= 8:
			it.Kind = "call"
			if !c.SrvPipelining {
				it.Gated = rapid.IntRange(0, 3).Draw(t, "gated") == 0
			}
		case k <= 10:
			it.Kind = "fail"
		case k <= 12:
			it.Kind = "unknown"
		case k == 13:
			it.Kind = "ping"
		case k == 14:
			// a frame that fails header decoding part-way (after its sequence number and flags)
			it.Kind = "junk"
		case k == 15 && streams < 3:
			it.Kind = "sopen"
			open = append(open, streams)
			streams++
		case k <= 17 && len(open) > 0:
			it.Kind = "sdata"
			it.Stream = open[rapid.IntRange(0, len(open)-1).Draw(t, "stream")]
		case k == 18 && len(open) > 0:
			it.Kind = "sclose"
			j := rapid.IntRange(0, len(open)-1).Draw(t, "stream")
			it.Stream = open[j]
			open = append(open[:j], open[j+1:]...)
		default:
			it.Kind = "call"
		}
		c.Items = append(c.Items, it)
	}
	nb := rapid.IntRange(1, 4).Draw(t, "nbatches")
	for k := 0; k < nb; k++ {
		c.Batches = append(c.Batches, rapid.SampledFrom([]int{1, 1, 2, 5, 16, 64}).Draw(t, "batch"))
	}
	c.Drop = -1
	if rapid.IntRange(0, 2).Draw(t, "drop") == 0 {
		c.Drop = rapid.IntRange(1, n).Draw(t, "drop_at")
		c.DropQuiet = rapid.Bool().Draw(t, "drop_quiet")
	}
}

func genTransport(t *rapid.T, c *Case) {
	c.Servers = rapid.IntRange(1, 2).Draw(t, "servers")
	n := rapid.IntRange(2, 40).Draw(t, "n")
	for i := 0; i < n; i++ {
		k := rapid.IntRange(0, 9).Draw(t, "kind")
		it := Item{Addr: rapid.IntRange(0, c.Servers-1).Draw(t, "addr")}
		switch {
		case k <= 6:
			it.Kind = "call"
			it.Form = rapid.SampledFrom([]string{"call", "go", "ctx", "roundtrip", "ccall", "cgo"}).Draw(t, "form")
			it.Size = rapid.SampledFrom([]int{16, 64, 200, 5000}).Draw(t, "size")
			it.Salt = rapid.Uint32().Draw(t, "salt")
			it.Method = rapid.IntRange(0, 3).Draw(t, "method")
		case k == 7:
			// a call whose connection is cut (the server stays reachable) while its handler runs
			it.Kind = "cutcall"
			it.Form = rapid.SampledFrom([]string{"call", "go", "ctx", "roundtrip", "ccall", "cgo"}).Draw(t, "form")
			it.Size = rapid.SampledFrom([]int{16, 64, 200}).Draw(t, "size")
			it.Salt = rapid.Uint32().Draw(t, "salt")
			it.Method = rapid.IntRange(0, 3).Draw(t, "method")
		case k == 8:
			it.Kind = "kill"
		default:
			it.Kind = "restart"
		}
		c.Items = append(c.Items, it)
	}
	c.Drop = -1
}

func gen(t *rapid.T) Case {
	c := Case{
		Enc:           rapid.SampledFrom(kit.Encoders).Draw(t, "enc"),
		SrvPipelining: rapid.IntRange(0, 2).Draw(t, "srv_pipe") == 0,
		SrvDirect:     rapid.Bool().Draw(t, "srv_direct"),
	}
	if k := rapid.IntRange(0, 7).Draw(t, "transport_mode"); k <= 1 {
		c.Mode = "transport"
		genTransport(t, &c)
	} else if k == 2 {
		c.Mode = "churn"
		genChurn(t, &c)
		return c
	} else {
		c.Mode = "wire"
		genWire(t, &c)
		// server read buffers smaller than some requests, pool-aligned or not
		c.SrvBuf = rapid.SampledFrom([]int{0, 0, 100, 128, 3000, 4096}).Draw(t, "srv_buf")
		if rapid.IntRange(0, 3).Draw(t, "unix") == 0 {
			c.Unix = true
			c.Poll = rapid.Bool().Draw(t, "poll")
		}
	}
	return c
}

const bound = 20 * time.Second

func run(c Case) kit.Outcome {
	if c.Enc != "default" && kit.HeaderEncoder(c.Enc) == nil || len(c.Items) > 2000 {
		return kit.Outcome{Invalid: true}
	}
	if c.Mode == "churn" {
		return runChurn(c)
	}
	if len(c.Items) == 0 {
		return kit.Outcome{Invalid: true}
	}
	switch c.Mode {
	case "wire":
		return runWire(c)
	case "transport":
		return runTransport(c)
	}
	return kit.Outcome{Invalid: true}
}

// junkFrame is a frame that decodes its sequence number and heartbeat flags and then fails.
func junkFrame(enc string, seq uint64) []byte {
	switch enc {
	case "code":
		b := binaryUvarint(seq)
		b = append(b, 0x01, kit.RefUpgrade(true, true, true, 0)) // upgrade: 1 byte
		return append(b, 0x05, 'a')                              // method: claims 5 bytes, has 1
	case "json":
		return []byte(`{"i":` + fmt.Sprint(seq) + `,"u":"4A==","m":"abc`)
	default:
		b := append([]byte{0x08}, binaryUvarint(seq)...)
		b = append(b, 0x12, 0x01, kit.RefUpgrade(true, true, true, 0))
		return append(b, 0x1a, 0x05, 'a')
	}
}

func binaryUvarint(v uint64) []byte {
	var b []byte
	for v >= 0x80 {
		b = append(b, byte(v)|0x80)
		v >>= 7
	}
	return append(b, byte(v))
}

// sendMixed writes a batch of well-formed requests and raw junk frames with one write call.
func sendMixed(cli *kit.ScriptClient, enc string, hdrs []kit.ReqHeader, raws [][]byte) error {
	var frames [][]byte
	for i := range hdrs {
		if raws[i] != nil {
			frames = append(frames, raws[i])
		} else {
			frames = append(frames, kit.RefEncodeRequest(enc, hdrs[i]))
		}
	}
	return cli.SendFrames(frames)
}

type sent struct {
	raw     []byte
	item    Item
	seq     uint64
	id      uint64
	args    []byte
	expects int // responses expected for this frame when the connection stays up
}

func runWire(c Case) kit.Outcome {
	nopen := 0
	for _, it := range c.Items {
		switch it.Kind {
		case "call", "fail", "unknown", "ping", "junk":
		case "sopen":
			nopen++
		case "sdata", "sclose":
			if it.Stream < 0 || it.Stream >= nopen {
				return kit.Outcome{Invalid: true}
			}
		default:
			return kit.Outcome{Invalid: true}
		}
		if it.Size < kit.HeaderLen || it.Size > 1<<20 || it.Method < 0 || it.Method > 3 {
			return kit.Outcome{Invalid: true}
		}
		if it.Gated && (c.SrvPipelining || it.Kind != "call") {
			return kit.Outcome{Invalid: true}
		}
	}
	for _, b := range c.Batches {
		if b < 1 {
			return kit.Outcome{Invalid: true}
		}
	}
	if c.Drop > len(c.Items) || c.Drop == 0 || c.Drop < -1 || c.SrvBuf < 0 || c.SrvBuf > 1<<22 {
		return kit.Outcome{Invalid: true}
	}
	env := kit.NewEnv()
	var streamStarts int64
	streamMsgs := map[uint64]int{} // per stream tag, messages the handler read
	env.StreamFn = func(e *kit.Env, st *kit.HStream) error {
		atomic.AddInt64(&streamStarts, 1)
		for {
			var m []byte
			if err := st.Read(nil, &m); err != nil {
				return err
			}
			r := kit.Transform(m)
			if err := st.Write(&r); err != nil {
				return err
			}
		}
	}
	_ = streamMsgs
	var link *kit.FrameLink
	var cli *kit.ScriptClient
	var done chan struct{}
	closed := false
	if c.Unix {
		// real unix sockets, optionally a poll-mode server: the session's own Env replaces env
		m := kit.Modes{Enc: c.Enc, SrvPipelining: c.SrvPipelining, SrvDirect: c.SrvDirect, Link: "unix", Poll: c.Poll, SrvBuf: c.SrvBuf}
		sess, err := kit.NewSession(m)
		if err != nil {
			return kit.Undecided("%v", err)
		}
		sess.Env.StreamFn = env.StreamFn
		env = sess.Env
		defer sess.Close()
		rc, err := kit.DialRaw("unix", sess.Addr)
		if err != nil {
			return kit.Undecided("dial: %v", err)
		}
		cli = kit.NewScriptClientOn(rc, c.Enc, env.Tick)
		done = make(chan struct{})
		close(done) // a unix-socket server's per-connection teardown cannot be awaited from outside
		defer func() {
			env.OpenAll()
			if !closed {
				cli.Close()
			}
		}()
	} else {
		srv := kit.NewServer(env, c.SrvPipelining, c.SrvDirect)
		if c.SrvBuf > 0 {
			srv.SetBufferSize(c.SrvBuf)
		}
		link = kit.NewFrameLink()
		link.S.SetHold(true)
		done = kit.ServeLink(srv, link, c.Enc, c.SrvDirect)
		cli = kit.NewScriptClient(link, c.Enc, env.Tick)
		defer func() {
			env.OpenAll()
			if !closed {
				link.C.Close()
			}
			select {
			case <-done:
			case <-time.After(5 * time.Second):
			}
		}()
	}
	limit := len(c.Items)
	if c.Drop > 0 {
		limit = c.Drop
	}
	var frames []*sent
	var hdrs []kit.ReqHeader
	var raws [][]byte // non-nil: the frame is sent as these raw bytes (junk)
	streamSeq := []uint64{}
	streamClosed := map[int]bool{}
	var gated []uint64
	for i, it := range c.Items[:limit] {
		s := &sent{item: it, seq: uint64(i), id: uint64(i + 1)}
		h := kit.ReqHeader{Seq: s.seq}
		switch it.Kind {
		case "call":
			dir := byte(kit.DirEcho)
			if it.Gated {
				dir = kit.DirGate
				gated = append(gated, s.id)
			}
			s.args = kit.MakePayload(s.id, dir, it.Salt, it.Size)
			h.Method, h.Args, s.expects = kit.Methods[it.Method], s.args, 1
		case "fail":
			s.args = kit.MakeFailPayload(s.id, false, kit.MakeText("ascii", 20, it.Salt))
			h.Method, h.Args, s.expects = kit.Methods[it.Method], s.args, 1
		case "unknown":
			s.args = kit.MakePayload(s.id, kit.DirEcho, it.Salt, it.Size)
			h.Method, h.Args, s.expects = fmt.Sprintf("S.No%d", i), s.args, 1
		case "junk":
			// heartbeat flags, then a method field that claims more bytes than the frame holds
			raw := junkFrame(c.Enc, s.seq)
			if !c.Unix {
				if err := cli.SendRaw(raw); err != nil {
					return kit.Undecided("send: %v", err)
				}
			}
			s.raw = raw
			hdrs = append(hdrs, kit.ReqHeader{})
			raws = append(raws, raw)
			frames = append(frames, s)
			continue
		case "ping":
			h.Upgrade, s.expects = []byte{kit.RefUpgrade(true, true, true, 0)}, 1
		case "sopen":
			streamSeq = append(streamSeq, s.seq)
			h.Method, h.Upgrade, s.expects = "S.Stream", []byte{kit.RefUpgrade(true, true, false, kit.StreamOpen)}, 1
		case "sdata":
			if streamClosed[it.Stream] {
				continue
			}
			s.seq = streamSeq[it.Stream]
			h.Seq = s.seq
			s.args = kit.MakePayload(s.id, kit.DirEcho, it.Salt, it.Size)
			h.Args, h.Upgrade, s.expects = s.args, []byte{kit.RefUpgrade(false, false, false, kit.StreamData)}, 1
		case "sclose":
			if streamClosed[it.Stream] {
				continue
			}
			streamClosed[it.Stream] = true
			s.seq = streamSeq[it.Stream]
			h.Seq = s.seq
			h.Upgrade, s.expects = []byte{kit.RefUpgrade(true, true, false, kit.StreamClose)}, 1
		}
		if !c.Unix {
			if err := cli.Send(h); err != nil {
				return kit.Undecided("send: %v", err)
			}
		}
		hdrs = append(hdrs, h)
		raws = append(raws, nil)
		frames = append(frames, s)
	}
	// deliver in batches: released from the held frame link, or one write call per batch
	left, bi, off := len(frames), 0, 0
	for left > 0 {
		b := 1
		if len(c.Batches) > 0 {
			b = c.Batches[bi%len(c.Batches)]
			bi++
		}
		if b > left {
			b = left
		}
		if c.Unix {
			if err := sendMixed(cli, c.Enc, hdrs[off:off+b], raws[off:off+b]); err != nil {
				return kit.Undecided("send: %v", err)
			}
			off += b
			left -= b
			continue
		}
		link.S.Release(b)
		left -= b
		if left > 0 || c.Drop < 0 || c.DropQuiet {
			if !link.S.WaitReaderIdle(bound) {
				return kit.Undecided("server reader did not consume released frames within %v", bound)
			}
		}
	}
	// echoes of stream messages that are followed by a close of their stream may legitimately be
	// cut short by that close: they are allowed, not required
	closedStreams := map[int]bool{}
	for _, f := range frames {
		if f.item.Kind == "sclose" {
			closedStreams[f.item.Stream] = true
		}
	}
	expected, optional := 0, 0
	for _, f := range frames {
		if f.item.Kind == "sdata" && closedStreams[f.item.Stream] {
			optional += f.expects
			continue
		}
		expected += f.expects
	}
	ungatedExpected := expected - len(gated)
	if c.Drop < 0 {
		env.WaitStartedIDs(gated, bound)
		env.OpenAll()
		// wait for the required responses per sequence number: the optional ones (echoes cut short
		// by a close) must not be mistaken for required ones that are still on their way
		need := map[uint64]int{}
		for _, f := range frames {
			if f.item.Kind == "sdata" && closedStreams[f.item.Stream] {
				continue
			}
			need[f.seq] += f.expects
		}
		deadline := time.Now().Add(bound)
		for {
			got := map[uint64]int{}
			for _, r := range cli.Responses() {
				got[r.Seq]++
			}
			missing := false
			for q, n := range need {
				if got[q] < n {
					missing = true
					break
				}
			}
			if !missing {
				break
			}
			if time.Now().After(deadline) {
				return verdictMissing(c, cli, frames, expected)
			}
			time.Sleep(200 * time.Microsecond)
		}
		if optional > 0 {
			cli.WaitResponses(expected+optional, 5*time.Millisecond)
		}
	} else {
		if c.DropQuiet {
			cli.WaitResponses(ungatedExpected, 2*time.Second)
		}
		closed = true
		cli.Close()
		time.Sleep(200 * time.Microsecond)
		env.OpenAll()
		select {
		case <-done:
		case <-time.After(bound):
			return kit.Undecided("ServeCodec did not return within %v after the client disconnected", bound)
		}
		if c.Unix {
			time.Sleep(5 * time.Millisecond) // the server side winds down asynchronously
		}
	}
	// quiescence: every started handler finishes
	deadline := time.Now().Add(bound)
	for env.Finished() < env.LogLen() {
		if time.Now().After(deadline) {
			return kit.Undecided("handlers still running %v after the end of the case", bound)
		}
		time.Sleep(100 * time.Microsecond)
	}
	time.Sleep(time.Millisecond)
	// judge
	log := env.Log()
	execs := map[uint64][]kit.Exec{}
	for _, e := range log {
		execs[e.ID] = append(execs[e.ID], e)
	}
	unaryBySeq := map[uint64]*sent{}
	sentIDs := map[uint64]*sent{}
	streamSeqs := map[uint64]bool{}
	for _, q := range streamSeq {
		streamSeqs[q] = true
	}
	for _, f := range frames {
		sentIDs[f.id] = f
		switch f.item.Kind {
		case "call", "fail", "unknown", "ping", "junk":
			unaryBySeq[f.seq] = f
		}
	}
	respCount := map[uint64]int{}
	for _, r := range cli.Responses() {
		if r.DecErr != "" {
			return kit.Undecided("undecodable response: %s", r.DecErr)
		}
		respCount[r.Seq]++
		if !streamSeqs[r.Seq] && unaryBySeq[r.Seq] == nil {
			return kit.Fail("phantom-response", "a response for sequence number %d was written although no such request was sent", r.Seq)
		}
	}
	for id, es := range execs {
		f := sentIDs[id]
		if f == nil {
			return kit.Fail("phantom-execution", "a handler ran for request id %d which was never sent", id)
		}
		if f.item.Kind == "ping" || f.item.Kind == "unknown" || f.item.Kind == "sopen" || f.item.Kind == "sclose" || f.item.Kind == "sdata" || f.item.Kind == "junk" {
			return kit.Fail("phantom-execution", "a unary handler ran for a %s frame (id %d)", f.item.Kind, id)
		}
		if len(es) > 1 {
			return kit.Fail("executed-twice", "request %d (%s via %s) was executed %d times", id, f.item.Kind, kit.Methods[f.item.Method], len(es))
		}
		if es[0].ArgsSHA != sha1.Sum(f.args) {
			return kit.Fail("wrong-arguments", "the handler of request %d received arguments that differ from what was sent", id)
		}
		if es[0].Method != kit.Methods[f.item.Method] {
			return kit.Fail("wrong-handler", "request %d named %s but %s ran", id, kit.Methods[f.item.Method], es[0].Method)
		}
	}
	for _, f := range frames {
		switch f.item.Kind {
		case "call", "fail":
			n := respCount[f.seq]
			if n > 1 {
				return kit.Fail("answered-twice", "request %d (seq %d) got %d responses", f.id, f.seq, n)
			}
			if n == 1 && len(execs[f.id]) != 1 {
				return kit.Fail("answered-without-execution", "request %d (seq %d, %s) was answered but its handler ran %d times", f.id, f.seq, f.item.Kind, len(execs[f.id]))
			}
			if c.Drop < 0 && (n != 1 || len(execs[f.id]) != 1) {
				o := kit.Fail("not-executed-once", "request %d (seq %d): %d executions, %d responses on a connection that stayed up", f.id, f.seq, len(execs[f.id]), n)
				// diagnostics: where did the missing response go?
				for q, k := range respCount {
					if k > 1 && !streamSeqs[q] {
						o.History = append(o.History, fmt.Sprintf("sequence number %d was answered %d times", q, k))
					}
				}
				for ri, r := range cli.Responses() {
					if g := unaryBySeq[r.Seq]; g != nil && g.args != nil && r.Error == "" && len(r.Reply) > 0 && string(r.Reply) != string(kit.Transform(g.args)) {
						owner := "nobody's"
						for _, h := range frames {
							if h.args != nil && string(r.Reply) == string(kit.Transform(h.args)) {
								owner = fmt.Sprintf("request %d's (seq %d)", h.id, h.seq)
							}
						}
						o.History = append(o.History, fmt.Sprintf("response #%d on the wire carries sequence number %d but %s reply (%d bytes)", ri, r.Seq, owner, len(r.Reply)))
					}
				}
				o.History = append(o.History, fmt.Sprintf("%d responses on the wire, %d expected (+%d optional)", len(cli.Responses()), expected, optional))
				return o
			}
		case "unknown", "ping":
			n := respCount[f.seq]
			if n > 1 || (c.Drop < 0 && n != 1) {
				return kit.Fail("answer-count", "%s frame seq %d got %d responses", f.item.Kind, f.seq, n)
			}
		}
	}
	// streams: handler invoked once per open; one ack + one echo per data message + one close ack
	opens := 0
	for _, f := range frames {
		if f.item.Kind == "sopen" {
			opens++
		}
	}
	if c.Drop < 0 {
		// the acknowledgement of an open precedes the start of its handler: wait for the starts
		dl := time.Now().Add(bound)
		for int(atomic.LoadInt64(&streamStarts)) < opens && time.Now().Before(dl) {
			time.Sleep(100 * time.Microsecond)
		}
	}
	if got := int(atomic.LoadInt64(&streamStarts)); got > opens || (c.Drop < 0 && got != opens) {
		return kit.Fail("stream-handler-count", "%d stream opens were sent but the stream handler was invoked %d times", opens, got)
	}
	if c.Drop < 0 {
		for si, q := range streamSeq {
			want, opt := 0, 0
			for _, f := range frames {
				if (f.item.Kind == "sopen" && f.seq == q) || (f.item.Kind == "sclose" && f.item.Stream == si) {
					want += f.expects
				}
				if f.item.Kind == "sdata" && f.item.Stream == si {
					if closedStreams[si] {
						opt += f.expects
					} else {
						want += f.expects
					}
				}
			}
			if respCount[q] < want || respCount[q] > want+opt {
				return kit.Fail("stream-answer-count", "stream %d (seq %d): %d frames written by the server, expected %d (open ack + one echo per message + close ack)", si, q, respCount[q], want)
			}
		}
	}
	kinds := map[string]bool{}
	shapes := map[int]bool{}
	maxBatch := 1
	for _, f := range frames {
		kinds[f.item.Kind] = true
		if f.item.Kind == "call" {
			shapes[f.item.Method] = true
		}
	}
	for _, b := range c.Batches {
		if b > maxBatch {
			maxBatch = b
		}
	}
	out := kit.Outcome{Counters: map[string]int{"frames": len(frames), "executions": len(log)}, Classes: []string{"wire", "enc=" + c.Enc}}
	if c.Unix {
		out.Classes = append(out.Classes, "unix-sockets")
	}
	if c.Poll {
		out.Classes = append(out.Classes, "poll")
	}
	mixed := len(shapes) >= 2 || kinds["ping"] || kinds["sopen"]
	if mixed && (maxBatch > 1 || c.Drop > 0) {
		out.Nontrivial = true
	}
	if c.Drop > 0 {
		out.Classes = append(out.Classes, "drop-point")
		if len(gated) > 0 {
			out.Classes = append(out.Classes, "drop-while-executing")
		}
	}
	if kinds["sopen"] {
		out.Classes = append(out.Classes, "stream-traffic")
	}
	if kinds["junk"] {
		out.Classes = append(out.Classes, "malformed-frame-between-requests")
	}
	if c.SrvBuf > 0 {
		out.Classes = append(out.Classes, "small-server-buffer")
		if c.SrvBuf&(c.SrvBuf-1) != 0 {
			out.Classes = append(out.Classes, "server-buffer-not-pool-aligned")
		}
	}
	return out
}

func verdictMissing(c Case, cli *kit.ScriptClient, frames []*sent, expected int) kit.Outcome {
	got := map[uint64]int{}
	for _, r := range cli.Responses() {
		got[r.Seq]++
	}
	for _, f := range frames {
		if f.expects > 0 && got[f.seq] == 0 && f.item.Kind != "sdata" {
			o := kit.Fail("unanswered", "%s frame seq %d got no response within %v on a connection that stayed up (%d of %d responses arrived)", f.item.Kind, f.seq, bound, len(cli.Responses()), expected)
			o.Timing = true
			return o
		}
	}
	o := kit.Fail("unanswered", "only %d of %d responses arrived within %v", len(cli.Responses()), expected, bound)
	o.Timing = true
	return o
}

// runChurn: a sequence of short-lived connections to one server over real unix sockets (poll-mode
// or not). Every round dials while or right after the previous connection (and possibly a silent
// visitor) goes away, so the server tears connections down while it accepts new ones; every
// request written on a live connection must be executed exactly once and answered.
func runChurn(c Case) kit.Outcome {
	if len(c.Rounds) == 0 || len(c.Rounds) > 500 || !c.Unix || len(c.Items) != 0 {
		return kit.Outcome{Invalid: true}
	}
	for _, r := range c.Rounds {
		if r.Reqs < 1 || r.Reqs > 1000 || r.Batch < 0 || r.Size < kit.HeaderLen || r.Size > 1<<20 || r.Conns < 1 || r.Conns > 8 {
			return kit.Outcome{Invalid: true}
		}
	}
	if c.Servers < 1 || c.Servers > 8 || c.Hold < 0 || c.Hold > 64 {
		return kit.Outcome{Invalid: true}
	}
	for _, r := range c.Rounds {
		if r.Srv < 0 || r.Srv >= c.Servers {
			return kit.Outcome{Invalid: true}
		}
	}
	m := kit.Modes{Enc: c.Enc, SrvPipelining: c.SrvPipelining, SrvDirect: c.SrvDirect, Link: "unix", Poll: c.Poll}
	sessions := make([]*kit.Session, c.Servers)
	prevs := make([][]*kit.ScriptClient, c.Servers)
	var held []*kit.ScriptClient
	defer func() {
		for _, h := range held {
			h.Close()
		}
		var wg sync.WaitGroup
		for i, sess := range sessions {
			for _, p := range prevs[i] {
				p.Close()
			}
			if sess != nil {
				wg.Add(1)
				go func(sess *kit.Session) { defer wg.Done(); sess.Close() }(sess)
			}
		}
		wg.Wait()
	}()
	const churnBound = 10 * time.Second
	sentArgs := map[uint64][]byte{}
	visitors, overlaps := 0, 0
	for ri, r := range c.Rounds {
		if sessions[r.Srv] == nil {
			// servers start lazily: the listening probe of the harness (a connection that says
			// nothing and leaves) is the first visitor of a server whose poll workers just started
			sess, err := kit.NewSession(m)
			if err != nil {
				return kit.Undecided("%v", err)
			}
			sessions[r.Srv] = sess
			visitors++
			for h := 0; h < c.Hold; h++ {
				rc, err := kit.DialRaw("unix", sess.Addr)
				if err != nil {
					return kit.Undecided("dial: %v", err)
				}
				hc := kit.NewScriptClientOn(rc, c.Enc, sess.Env.Tick)
				held = append(held, hc)
				if err := hc.Send(kit.ReqHeader{Seq: 0, Upgrade: []byte{kit.RefUpgrade(true, true, true, 0)}}); err != nil {
					return kit.Undecided("send: %v", err)
				}
			}
		}
		sess, env := sessions[r.Srv], sessions[r.Srv].Env
		prev := prevs[r.Srv]
		prevs[r.Srv] = nil
		closeAll := func(cs []*kit.ScriptClient) {
			for _, p := range cs {
				p.Close()
			}
		}
		if len(prev) > 0 && !r.KeepPrev {
			closeAll(prev)
			prev = nil
		}
		if r.Visitor {
			v, err := kit.DialRaw("unix", sess.Addr)
			if err != nil {
				return kit.Undecided("dial: %v", err)
			}
			v.Close()
			visitors++
		}
		// a burst of connections dialed back to back, then one write per connection
		var clis []*kit.ScriptClient
		var raws []*kit.RawConn
		for j := 0; j < r.Conns; j++ {
			rc, err := kit.DialRaw("unix", sess.Addr)
			if err != nil {
				closeAll(clis)
				return kit.Undecided("dial: %v", err)
			}
			clis = append(clis, kit.NewScriptClientOn(rc, c.Enc, env.Tick))
			raws = append(raws, rc)
		}
		if len(prev) > 0 {
			closeAll(prev)
			prev = nil
			overlaps++
		}
		hdrs := make([][]kit.ReqHeader, len(clis))
		for j := range clis {
			for k := 0; k < r.Reqs; k++ {
				id := uint64(ri+1)<<20 | uint64(j)<<10 | uint64(k+1)
				args := kit.MakePayload(id, kit.DirEcho, r.Salt+uint32(j*1024+k), r.Size)
				sentArgs[id] = args
				hdrs[j] = append(hdrs[j], kit.ReqHeader{Seq: uint64(k), Method: kit.Methods[(ri+k)%4], Args: args})
			}
		}
		// the connections write concurrently, Batch requests per write call
		var swg sync.WaitGroup
		sendErr := make([]error, len(clis))
		for j, cli := range clis {
			swg.Add(1)
			go func(j int, cli *kit.ScriptClient) {
				defer swg.Done()
				b := r.Batch
				if b < 1 {
					b = 1
				}
				for off := 0; off < len(hdrs[j]); off += b {
					end := off + b
					if end > len(hdrs[j]) {
						end = len(hdrs[j])
					}
					if err := cli.SendBatch(hdrs[j][off:end]); err != nil {
						sendErr[j] = err
						return
					}
				}
			}(j, cli)
		}
		swg.Wait()
		for _, err := range sendErr {
			if err != nil {
				closeAll(clis)
				return kit.Undecided("send: %v", err)
			}
		}
		for j, cli := range clis {
			if !cli.WaitResponses(r.Reqs, churnBound) {
				got := len(cli.Responses())
				// Not merely slow? The peer has taken every byte this connection wrote out of the
				// socket, and neither executions nor responses advance any more.
				execsOf := func() int {
					n := 0
					for _, e := range env.Log() {
						if e.ID>>20 == uint64(ri+1) && (e.ID>>10)&0x3ff == uint64(j) {
							n++
						}
					}
					return n
				}
				e1 := execsOf()
				time.Sleep(time.Second)
				outq, _ := raws[j].Queues()
				if outq == 0 && execsOf() == e1 && len(cli.Responses()) == got && e1 < r.Reqs {
					closeAll(clis)
					return kit.Fail("requests-consumed-not-executed", "round %d of %d: connection %d of a burst of %d fresh connections, dialed right after another connection went away, wrote %d requests; the server read all their bytes off the socket but executed only %d of them and wrote %d responses, with no progress any more after %v [poll=%v pipelining=%v direct=%v]", ri, len(c.Rounds), j, len(clis), r.Reqs, e1, got, churnBound, c.Poll, c.SrvPipelining, c.SrvDirect)
				}
				closeAll(clis)
				o := kit.Fail("unanswered-after-churn", "round %d of %d: connection %d of a burst of %d fresh connections, dialed right after another connection went away, wrote %d requests and got %d responses within %v [poll=%v pipelining=%v direct=%v]", ri, len(c.Rounds), j, len(clis), r.Reqs, got, churnBound, c.Poll, c.SrvPipelining, c.SrvDirect)
				o.Timing = true
				return o
			}
			seen := map[uint64]int{}
			for _, resp := range cli.Responses() {
				if resp.DecErr != "" {
					closeAll(clis)
					return kit.Fail("garbled-response", "round %d: a response could not be decoded: %s", ri, resp.DecErr)
				}
				seen[resp.Seq]++
				if resp.Seq >= uint64(r.Reqs) || seen[resp.Seq] > 1 {
					closeAll(clis)
					return kit.Fail("phantom-response", "round %d: response for sequence number %d (%d requests sent, seen %d times)", ri, resp.Seq, r.Reqs, seen[resp.Seq])
				}
				want := kit.Transform(hdrs[j][resp.Seq].Args)
				if resp.Error != "" || string(resp.Reply) != string(want) {
					closeAll(clis)
					return kit.Fail("wrong-reply", "round %d: request %d was answered with error %q / a reply that is not the transform of its arguments", ri, resp.Seq, resp.Error)
				}
			}
		}
		prevs[r.Srv] = clis
	}
	for i, h := range held {
		if !h.WaitResponses(1, churnBound) {
			o := kit.Fail("unanswered-after-churn", "held connection %d of %d got no answer to its ping within %v [poll=%v]", i, len(held), churnBound, c.Poll)
			o.Timing = true
			return o
		}
	}
	execs := map[uint64]int{}
	for _, sess := range sessions {
		if sess == nil {
			continue
		}
		env := sess.Env
		deadline := time.Now().Add(churnBound)
		for env.Finished() < env.LogLen() {
			if time.Now().After(deadline) {
				return kit.Undecided("handlers still running %v after the end of the case", churnBound)
			}
			time.Sleep(100 * time.Microsecond)
		}
		for _, e := range env.Log() {
			execs[e.ID]++
			args, ok := sentArgs[e.ID]
			if !ok {
				return kit.Fail("phantom-execution", "a handler ran for request id %d which was never sent", e.ID)
			}
			if e.ArgsSHA != sha1.Sum(args) {
				return kit.Fail("wrong-arguments", "the handler of request %d received arguments that differ from what was sent", e.ID)
			}
		}
	}
	for id := range sentArgs {
		if execs[id] != 1 {
			return kit.Fail("not-executed-once", "request %d was answered but executed %d times", id, execs[id])
		}
	}
	out := kit.Outcome{Counters: map[string]int{"frames": len(sentArgs), "executions": len(execs), "churn_rounds": len(c.Rounds)}, Classes: []string{"churn", "enc=" + c.Enc, "unix-sockets"}}
	if c.Poll {
		out.Classes = append(out.Classes, "poll")
	}
	if c.Hold > 16 {
		out.Classes = append(out.Classes, "churn-with-more-than-16-open-connections")
	}
	if len(c.Rounds) >= 3 && (visitors > 0 || overlaps > 0) {
		out.Nontrivial = true
	}
	return out
}

// runTransport: calls through a real Transport / Client against servers that are killed and
// restarted; no call may execute twice and a successful call executed exactly once.
func runTransport(c Case) kit.Outcome {
	if c.Servers < 1 || c.Servers > 4 {
		return kit.Outcome{Invalid: true}
	}
	for _, it := range c.Items {
		if it.Addr < 0 || it.Addr >= c.Servers {
			return kit.Outcome{Invalid: true}
		}
		switch it.Kind {
		case "call", "cutcall":
			if it.Size < kit.HeaderLen || it.Size > 1<<20 || it.Method < 0 || it.Method > 3 {
				return kit.Outcome{Invalid: true}
			}
			switch it.Form {
			case "call", "go", "ctx", "roundtrip", "ccall", "cgo":
			default:
				return kit.Outcome{Invalid: true}
			}
		case "kill", "restart":
		default:
			return kit.Outcome{Invalid: true}
		}
	}
	env := kit.NewEnv()
	env.GateWait = 3 * time.Second
	net := kit.NewNet()
	m := kit.Modes{Enc: c.Enc, SrvPipelining: c.SrvPipelining, SrvDirect: c.SrvDirect, Link: "bytes"}
	opts := m.Options(net)
	addrs := make([]string, c.Servers)
	servers := make([]*rpc.Server, c.Servers)
	up := make([]bool, c.Servers)
	lisDone := make([]chan error, c.Servers)
	start := func(i int) bool {
		servers[i] = kit.NewServer(env, c.SrvPipelining, c.SrvDirect)
		ch := make(chan error, 1)
		lisDone[i] = ch
		srv := servers[i]
		go func() { ch <- srv.ListenWithOptions(addrs[i], opts) }()
		up[i] = net.WaitListening(addrs[i], 5*time.Second)
		return up[i]
	}
	stop := func(i int) {
		// repeated: a Close that precedes the Server's own record of its listener closes nothing
		for tries := 0; tries < 50; tries++ {
			servers[i].Close()
			net.SeverServerSide(addrs[i], nil)
			stopped := false
			select {
			case <-lisDone[i]:
				stopped = true
			case <-time.After(100 * time.Millisecond):
			}
			if stopped {
				break
			}
		}
		up[i] = false
	}
	for i := range addrs {
		addrs[i] = fmt.Sprintf("c04-%p-%d", env, i)
		if !start(i) {
			return kit.Undecided("server %d did not start", i)
		}
	}
	tr := &rpc.Transport{Options: opts, MaxConnsPerHost: 2, MaxIdleConnsPerHost: 2}
	client := rpc.NewClient(opts, addrs...)
	client.DialTimeout = 300 * time.Millisecond
	defer func() {
		tr.Close()
		client.Close()
		for i := range servers {
			if up[i] {
				stop(i)
			}
		}
	}()
	type rec struct {
		id   uint64
		args []byte
		err  error
		form string
	}
	var recs []*rec
	kills, cuts := 0, 0
	for i, it := range c.Items {
		switch it.Kind {
		case "kill":
			if up[it.Addr] {
				stop(it.Addr)
				kills++
			}
		case "restart":
			if !up[it.Addr] {
				if !start(it.Addr) {
					return kit.Undecided("server %d did not restart", it.Addr)
				}
			}
		case "call", "cutcall":
			cut := it.Kind == "cutcall" && up[it.Addr]
			r := &rec{id: uint64(i + 1), form: it.Form}
			dir := byte(kit.DirEcho)
			if cut {
				dir = kit.DirGate
			}
			r.args = kit.MakePayload(r.id, dir, it.Salt, it.Size)
			var reply []byte
			method := kit.Methods[it.Method]
			addr := addrs[it.Addr]
			resc := make(chan error, 1)
			go func() {
				switch it.Form {
				case "call":
					resc <- tr.Call(addr, method, &r.args, &reply)
				case "ctx":
					resc <- tr.CallWithContext(context.Background(), addr, method, &r.args, &reply)
				case "go":
					call := tr.Go(addr, method, &r.args, &reply, make(chan *rpc.Call, 1))
					<-call.Done
					resc <- call.Error
				case "roundtrip":
					call := tr.RoundTrip(addr, &rpc.Call{ServiceMethod: method, Args: &r.args, Reply: &reply, Done: make(chan *rpc.Call, 1)})
					<-call.Done
					resc <- call.Error
				case "ccall":
					resc <- client.Call(method, &r.args, &reply)
				case "cgo":
					call := client.Go(method, &r.args, &reply, make(chan *rpc.Call, 1))
					<-call.Done
					resc <- call.Error
				}
			}()
			if cut {
				// the link is cut while the handler runs; the server stays reachable
				if env.WaitStartedIDs([]uint64{r.id}, 2*time.Second) {
					net.SeverServerSide(addr, nil)
					cuts++
				}
				time.Sleep(300 * time.Microsecond)
				env.Open(r.id)
			}
			select {
			case r.err = <-resc:
			case <-time.After(bound):
				return kit.Undecided("call %d (%s) did not complete within %v", i, it.Form, bound)
			}
			if r.err == nil && string(reply) != string(kit.Transform(r.args)) {
				return kit.Fail("wrong-reply", "call %d succeeded with a wrong reply", i)
			}
			recs = append(recs, r)
		}
	}
	time.Sleep(2 * time.Millisecond)
	execs := map[uint64]int{}
	for _, e := range env.Log() {
		execs[e.ID]++
	}
	okCalls, failed := 0, 0
	byID := map[uint64]*rec{}
	for _, r := range recs {
		byID[r.id] = r
		n := execs[r.id]
		if n > 1 {
			return kit.Fail("executed-twice", "call %d (%s) was executed %d times: the library retried or duplicated it", r.id, r.form, n)
		}
		if r.err == nil {
			okCalls++
			if n != 1 {
				return kit.Fail("success-without-execution", "call %d (%s) reported success but was executed %d times", r.id, r.form, n)
			}
		} else {
			failed++
		}
	}
	for id := range execs {
		if byID[id] == nil {
			return kit.Fail("phantom-execution", "a handler ran for id %d which no call carried", id)
		}
	}
	out := kit.Outcome{Counters: map[string]int{"calls": len(recs), "failed_calls": failed}, Classes: []string{"transport", "enc=" + c.Enc}}
	if kills > 0 && okCalls > 0 && failed > 0 {
		out.Nontrivial = true
		out.Classes = append(out.Classes, "kill-with-failures")
	}
	if cuts > 0 {
		out.Nontrivial = true
		out.Classes = append(out.Classes, "link-cut-while-executing")
	}
	return out
}

var prop = kit.Property[Case]{
	ID:    "C04",
	Level: "exploration",
	Rule:  "rapid-generated cases of three kinds. Wire: a scripted client writes 1-200 request frames built with the reference encoder (unary calls to all four handler shapes, some gated; failing handlers; unknown methods; pings; stream open/data/close) to a real Server (4 header encoders x multiplexing/pipelining x direct/async IO), released in drawn batches of 1..64 frames, optionally disconnecting after item j (quietly or with requests queued and executing). Oracle from the execution log and the recorded response frames: executions(id)==1 for every answered request, <=1 for every sent one, 0 for pings/unknown/unsent ids, logged argument digest == sent; responses per sequence number <=1 and ==1 on a connection that stayed up; stream handler invoked once per open, one echo per stream message. Transport: calls of every form through a real Transport and Client against 1-2 servers that the history kills and restarts; executions(id)<=1 always and ==1 for every successful call. Churn: 1-6 servers over real unix sockets (three quarters poll-mode), started lazily, serve 3-30 rounds; in each round the previous connections of that server are closed (before or after the new ones dialed), optionally a silent visitor connects and leaves, then a burst of 1-4 fresh connections is dialed back to back and each writes 1-250 requests (1-64 per write call) concurrently; every request must be answered with the transform of its own arguments and executed exactly once with the arguments sent; a connection whose bytes the server has consumed (socket send queue empty) without executing them and without further progress is a violation that does not depend on timing. Non-trivial (wire): >= 2 handler shapes or a ping or stream traffic, and (a batch > 1 or a drop point); (transport): a kill with both failed and successful calls; (churn): >= 3 rounds with a visitor or an overlapping close; distinct by SHA-1 of the case.",
	Assumptions: []string{
		"a quarter of the wire cases run over real unix sockets (half of them against a poll-mode server) with one write call per batch; the rest over held frame links",
		"the scripted client speaks the documented wire format (reference encoder)",
		"churn cases read the socket send queue (TIOCOUTQ) to tell requests the server never read from requests it read and lost",
	},
	Gen: gen,
	Run: run,
}

func TestProperty(t *testing.T) { kit.Check(t, prop) }
