package c18

import (
	"fmt"
	"sync"
	"sync/atomic"
	"testing"
	"time"

	"github.com/hslam/rpc"
	"pgregory.net/rapid"
	"verif/harness/kit"
)

// Caller is one caller of a waiting scenario.
type Caller struct {
	Form    string `json:"form"`
	StartMS int    `json:"start_ms"`
}

// Case is one of four scenarios.
type Case struct {
	Scenario      string   `json:"scenario"` // wait | close | failover | fallback | blackout
	GapMS         int      `json:"gap_ms,omitempty"`     // blackout: delay between the targets going down
	PingMS        int      `json:"ping_ms,omitempty"`    // blackout: duration of a health probe
	Stale         bool     `json:"stale,omitempty"`      // blackout: a slow probe reports the health it saw when it started
	Recoverer     int      `json:"recoverer,omitempty"`  // blackout: which target comes back (index in going-down order)
	CloseDelayMS  int      `json:"close_delay_ms,omitempty"` // close: how long the transport's Close takes
	UseFallback   bool     `json:"use_fallback,omitempty"`   // close: the client is paused by Fallback while it is closed
	FailDelayMS   []int    `json:"fail_delay_ms,omitempty"` // blackout: per target, how long a call to it takes to fail once it is down
	Policy        int      `json:"policy"`
	Targets       int      `json:"targets"`
	DialTimeoutMS int      `json:"dial_timeout_ms"`
	Callers       []Caller `json:"callers,omitempty"`
	UpAtMS        int      `json:"up_at_ms"`   // wait: a target comes up then (-1 never)
	UpTarget      int      `json:"up_target"`
	CloseAtMS     int      `json:"close_at_ms"` // close
	DownAtMS      int      `json:"down_at_ms"`  // failover: X goes down
	RecoverAtMS   int      `json:"recover_at_ms"` // failover: X comes back (-1 never)
	X             int      `json:"x"`
	SecondOutage  bool     `json:"second_outage"`
	FallbackAtMS  int      `json:"fallback_at_ms"`
	FallbackMS    int      `json:"fallback_ms"`
}

var forms = []string{"call", "ctx", "go", "roundtrip", "stream"}

const detect = 100 * time.Millisecond // the client's fixed detector period
const slack = 250 * time.Millisecond

func gen(t *rapid.T) Case {
	c := Case{
		Scenario:      rapid.SampledFrom([]string{"wait", "wait", "close", "failover", "failover", "fallback", "blackout", "blackout"}).Draw(t, "scenario"),
		Policy:        rapid.IntRange(0, 1).Draw(t, "policy"),
		DialTimeoutMS: rapid.SampledFrom([]int{150, 400, 1000}).Draw(t, "dial_timeout"),
		UpAtMS:        -1,
		RecoverAtMS:   -1,
	}
	genCallers := func(maxStart int) {
		n := rapid.IntRange(1, 12).Draw(t, "ncallers")
		for i := 0; i < n; i++ {
			c.Callers = append(c.Callers, Caller{Form: rapid.SampledFrom(forms).Draw(t, "form"), StartMS: rapid.IntRange(0, maxStart).Draw(t, "start_ms")})
		}
	}
	switch c.Scenario {
	case "wait":
		c.Targets = rapid.IntRange(1, 3).Draw(t, "targets")
		genCallers(60)
		if rapid.IntRange(0, 2).Draw(t, "comes_up") > 0 {
			c.UpAtMS = rapid.IntRange(0, c.DialTimeoutMS+100).Draw(t, "up_at")
			c.UpTarget = rapid.IntRange(0, c.Targets-1).Draw(t, "up_target")
		}
	case "close":
		c.Targets = rapid.IntRange(1, 3).Draw(t, "targets")
		c.DialTimeoutMS = 1000
		genCallers(60)
		c.CloseAtMS = rapid.IntRange(0, 300).Draw(t, "close_at")
		c.CloseDelayMS = rapid.SampledFrom([]int{0, 0, 20, 80}).Draw(t, "close_delay")
		c.UseFallback = rapid.Bool().Draw(t, "use_fallback")
		// some callers arrive while Close is in progress
		extra := rapid.IntRange(0, 6).Draw(t, "during_close")
		for i := 0; i < extra; i++ {
			c.Callers = append(c.Callers, Caller{Form: rapid.SampledFrom(forms).Draw(t, "form2"), StartMS: c.CloseAtMS + rapid.IntRange(0, c.CloseDelayMS+2).Draw(t, "start_during")})
		}
	case "failover":
		c.Targets = rapid.IntRange(2, 4).Draw(t, "targets")
		c.DialTimeoutMS = 1000
		c.X = rapid.IntRange(0, c.Targets-1).Draw(t, "x")
		c.DownAtMS = rapid.IntRange(150, 300).Draw(t, "down_at")
		if rapid.IntRange(0, 3).Draw(t, "recovers") > 0 {
			c.RecoverAtMS = c.DownAtMS + rapid.IntRange(200, 600).Draw(t, "recover_after")
			c.SecondOutage = rapid.Bool().Draw(t, "second_outage")
		}
	case "blackout":
		c.Targets = rapid.IntRange(2, 3).Draw(t, "targets")
		c.DialTimeoutMS = 1000
		c.DownAtMS = rapid.IntRange(150, 300).Draw(t, "down_at")
		c.GapMS = rapid.SampledFrom([]int{0, 30, 150, 300}).Draw(t, "gap_ms")
		c.PingMS = rapid.SampledFrom([]int{0, 0, 20, 120}).Draw(t, "ping_ms")
		c.Stale = rapid.Bool().Draw(t, "stale")
		c.Recoverer = rapid.IntRange(0, c.Targets-1).Draw(t, "recoverer")
		c.RecoverAtMS = rapid.IntRange(250, 500).Draw(t, "recover_after")
		for i := 0; i < c.Targets; i++ {
			c.FailDelayMS = append(c.FailDelayMS, rapid.SampledFrom([]int{0, 0, 60, 150, 300}).Draw(t, "fail_delay"))
		}
		if rapid.Bool().Draw(t, "staggered_detection") {
			// the shape in which the live list shrinks to one target before that one fails too: the
			// first targets are refused at once, the last one fails slowly, shortly afterwards, and is
			// the one that comes back
			for i := range c.FailDelayMS {
				c.FailDelayMS[i] = 0
			}
			c.FailDelayMS[c.Targets-1] = rapid.SampledFrom([]int{150, 250, 400}).Draw(t, "slow_fail")
			c.GapMS = rapid.SampledFrom([]int{10, 30, 60}).Draw(t, "short_gap")
			c.Recoverer = c.Targets - 1
			c.RecoverAtMS = rapid.IntRange(500, 800).Draw(t, "recover_late")
		}
	case "fallback":
		c.Targets = rapid.IntRange(1, 3).Draw(t, "targets")
		c.DialTimeoutMS = 1000
		c.FallbackAtMS = rapid.IntRange(150, 300).Draw(t, "fallback_at")
		c.FallbackMS = rapid.IntRange(60, 300).Draw(t, "fallback_ms")
		genCallers(0)
	}
	return c
}

func timing(clause, format string, a ...interface{}) kit.Outcome {
	o := kit.Fail(clause, format, a...)
	o.Timing = true
	return o
}

type result struct {
	caller  Caller
	id      int
	started time.Time
	ended   time.Time
	err     error
	done    bool
}

func names(n int) []string {
	out := make([]string, n)
	for i := range out {
		out[i] = fmt.Sprintf("h%d", i)
	}
	return out
}

func strict(form string) bool { return form == "call" || form == "ctx" }

func run(c Case) kit.Outcome {
	if c.Targets < 1 || c.Targets > 6 || c.Policy < 0 || c.Policy > 2 || c.DialTimeoutMS < 50 || c.DialTimeoutMS > 5000 || len(c.Callers) > 64 {
		return kit.Outcome{Invalid: true}
	}
	for _, cl := range c.Callers {
		ok := false
		for _, f := range forms {
			if f == cl.Form {
				ok = true
			}
		}
		if !ok || cl.StartMS < 0 || cl.StartMS > 2000 {
			return kit.Outcome{Invalid: true}
		}
	}
	switch c.Scenario {
	case "wait":
		if c.UpAtMS < -1 || c.UpAtMS > 5000 || c.UpTarget < 0 || c.UpTarget >= c.Targets || len(c.Callers) == 0 {
			return kit.Outcome{Invalid: true}
		}
		return runWait(c)
	case "close":
		if c.CloseAtMS < 0 || c.CloseAtMS > 5000 || len(c.Callers) == 0 {
			return kit.Outcome{Invalid: true}
		}
		return runClose(c)
	case "failover":
		if c.Targets < 2 || c.X < 0 || c.X >= c.Targets || c.DownAtMS < 120 || c.DownAtMS > 5000 || c.RecoverAtMS > 10000 || (c.RecoverAtMS >= 0 && c.RecoverAtMS < c.DownAtMS+150) {
			return kit.Outcome{Invalid: true}
		}
		return runFailover(c)
	case "blackout":
		if c.Targets < 2 || c.DownAtMS < 120 || c.DownAtMS > 5000 || c.GapMS < 0 || c.GapMS > 2000 || c.PingMS < 0 || c.PingMS > 1000 || c.Recoverer < 0 || c.Recoverer >= c.Targets || c.RecoverAtMS < 200 || c.RecoverAtMS > 5000 || c.DialTimeoutMS < 800 {
			return kit.Outcome{Invalid: true}
		}
		return runBlackout(c)
	case "fallback":
		if c.FallbackAtMS < 120 || c.FallbackAtMS > 5000 || c.FallbackMS < 30 || c.FallbackMS > 2000 || c.DialTimeoutMS < c.FallbackMS+500 {
			return kit.Outcome{Invalid: true}
		}
		return runFallback(c)
	}
	return kit.Outcome{Invalid: true}
}

func newClient(c Case, frt *kit.FakeRT, hosts []string) *rpc.Client {
	client := rpc.NewClient(nil)
	client.Transport = frt
	client.Scheduling = rpc.Scheduling(c.Policy)
	client.DialTimeout = time.Duration(c.DialTimeoutMS) * time.Millisecond
	client.Update(hosts...)
	return client
}

// startCallers launches the callers at their offsets from t0.
func startCallers(client *rpc.Client, c Case, t0 time.Time) ([]*result, *sync.WaitGroup) {
	res := make([]*result, len(c.Callers))
	var wg sync.WaitGroup
	for i, cl := range c.Callers {
		r := &result{caller: cl, id: i + 1}
		res[i] = r
		wg.Add(1)
		go func() {
			defer wg.Done()
			if d := time.Until(t0.Add(time.Duration(cl.StartMS) * time.Millisecond)); d > 0 {
				time.Sleep(d)
			}
			r.started = time.Now()
			r.err = kit.ClientDo(client, cl.Form, &kit.CallTag{ID: r.id, Start: r.started})
			r.ended = time.Now()
			r.done = true
		}()
	}
	return res, &wg
}

func waitAll(wg *sync.WaitGroup, d time.Duration) bool {
	done := make(chan struct{})
	go func() { wg.Wait(); close(done) }()
	select {
	case <-done:
		return true
	case <-time.After(d):
		return false
	}
}

// runWait: no target has ever been up; callers wait; one may come up.
func runWait(c Case) kit.Outcome {
	hosts := names(c.Targets)
	frt := kit.NewFakeRT()
	for _, h := range hosts {
		frt.SetDown(h, true)
	}
	client := newClient(c, frt, hosts)
	defer client.Close()
	dt := time.Duration(c.DialTimeoutMS) * time.Millisecond
	t0 := time.Now().Add(2 * time.Millisecond)
	res, wg := startCallers(client, c, t0)
	var upAt time.Time
	if c.UpAtMS >= 0 {
		time.Sleep(time.Until(t0.Add(time.Duration(c.UpAtMS) * time.Millisecond)))
		frt.SetDown(hosts[c.UpTarget], false)
		upAt = time.Now()
	}
	if !waitAll(wg, dt+3*time.Second) {
		return timing("waits-too-long", "a caller was still waiting %v after DialTimeout (%v) had elapsed", 3*time.Second, dt)
	}
	waiters := 0
	for _, r := range res {
		waited := r.ended.Sub(r.started)
		if waited > dt+500*time.Millisecond {
			return timing("waits-too-long", "%s caller %d waited %v, DialTimeout is %v", r.caller.Form, r.id, waited, dt)
		}
		deadline := r.started.Add(dt)
		switch {
		case c.UpAtMS < 0 || deadline.Before(upAt.Add(-40*time.Millisecond)):
			// nothing came up in time: the caller times out. (The library arms its timer a little
			// after the harness stamped the start; when a target did come up shortly after the
			// deadline the verdicts depend on that gap and must reproduce alone.)
			near := c.UpAtMS >= 0
			if waited < dt-5*time.Millisecond {
				return kit.Fail("returns-early", "%s caller %d returned after %v with %v although no target was live and DialTimeout is %v", r.caller.Form, r.id, waited, r.err, dt)
			}
			if r.err == nil {
				o := kit.Fail("success-without-target", "%s caller %d succeeded although no target was live", r.caller.Form, r.id)
				o.Timing = near
				return o
			}
			if strict(r.caller.Form) && r.err != rpc.ErrTimeout {
				o := kit.Fail("wrong-error", "%s caller %d failed with %v after DialTimeout, expected ErrTimeout", r.caller.Form, r.id, r.err)
				o.Timing = near
				return o
			}
			waiters++
		case deadline.After(upAt.Add(detect + slack)):
			// still waiting when the target came up, with room to spare: released and routed
			if r.started.Before(upAt) {
				waiters++
			}
			if r.err != nil {
				return timing("not-released", "%s caller %d was waiting when target %s came up but failed with %v after %v", r.caller.Form, r.id, hosts[c.UpTarget], r.err, waited)
			}
			ref := upAt
			if r.started.After(upAt) {
				ref = r.started
			}
			if r.ended.Sub(ref) > detect+slack {
				return timing("released-late", "%s caller %d returned %v after a target became live; waiters must be released within the detection period (100 ms + %v slack)", r.caller.Form, r.id, r.ended.Sub(ref), slack)
			}
		default:
			// the deadline lies within the release window: either outcome
		}
	}
	out := kit.Outcome{Classes: []string{"wait"}}
	if waiters >= 2 {
		out.Nontrivial = true
	}
	if c.UpAtMS >= 0 {
		out.Classes = append(out.Classes, "target-comes-up")
	} else {
		out.Classes = append(out.Classes, "timeout")
	}
	return out
}

// runClose: callers wait for a target; the Client is closed.
func runClose(c Case) kit.Outcome {
	hosts := names(c.Targets)
	frt := kit.NewFakeRT()
	for _, h := range hosts {
		frt.SetDown(h, true)
	}
	if c.CloseDelayMS < 0 || c.CloseDelayMS > 400 {
		return kit.Outcome{Invalid: true}
	}
	frt.CloseDelay = time.Duration(c.CloseDelayMS) * time.Millisecond
	client := newClient(c, frt, hosts)
	if c.UseFallback {
		client.Fallback(time.Minute)
	}
	t0 := time.Now().Add(2 * time.Millisecond)
	res, wg := startCallers(client, c, t0)
	time.Sleep(time.Until(t0.Add(time.Duration(c.CloseAtMS) * time.Millisecond)))
	closeCalled := time.Now()
	if err := client.Close(); err != nil {
		return kit.Fail("close-error", "Client.Close returned %v", err)
	}
	closeReturned := time.Now()
	if !waitAll(wg, 3*time.Second) {
		return timing("stranded", "a caller was still blocked 3 s after Client.Close")
	}
	waiters := 0
	for _, r := range res {
		if r.err == nil {
			return kit.Fail("success-without-target", "%s caller %d succeeded although no target was ever live", r.caller.Form, r.id)
		}
		ref := closeReturned
		if r.started.After(closeReturned) {
			ref = r.started
		}
		if r.started.Before(closeCalled) {
			waiters++
		}
		if r.ended.Sub(ref) > 500*time.Millisecond {
			return timing("stranded", "%s caller %d returned %v after Client.Close; waiters must be released at once", r.caller.Form, r.id, r.ended.Sub(ref))
		}
		if strict(r.caller.Form) && r.err != rpc.ErrShutdown && !r.started.Before(closeReturned) {
			return kit.Fail("wrong-error", "%s caller %d started after Close returned and failed with %v, expected ErrShutdown", r.caller.Form, r.id, r.err)
		}
		if strict(r.caller.Form) && r.started.Before(closeCalled) && r.err != rpc.ErrShutdown {
			return kit.Fail("wrong-error", "%s caller %d was waiting when the Client was closed and failed with %v, expected ErrShutdown", r.caller.Form, r.id, r.err)
		}
	}
	// after Close every call fails at once
	for _, f := range forms {
		start := time.Now()
		rc := make(chan error, 1)
		go func() { rc <- kit.ClientDo(client, f, &kit.CallTag{ID: 999, Start: start}) }()
		select {
		case err := <-rc:
			if err == nil {
				return kit.Fail("call-after-close", "a %s made after Client.Close succeeded", f)
			}
			if strict(f) && err != rpc.ErrShutdown {
				return kit.Fail("wrong-error", "a %s made after Client.Close failed with %v, expected ErrShutdown", f, err)
			}
		case <-time.After(500 * time.Millisecond):
			return timing("call-after-close-blocks", "a %s made after Client.Close did not fail within 500 ms", f)
		}
	}
	out := kit.Outcome{Classes: []string{"close"}}
	if waiters >= 1 {
		out.Nontrivial = true
	}
	return out
}

// spin issues timed calls continuously and returns a stop function.
func spin(client *rpc.Client, n int) (stop func()) {
	var flag int32
	var wg sync.WaitGroup
	var id int64
	for i := 0; i < n; i++ {
		wg.Add(1)
		go func() {
			defer wg.Done()
			for atomic.LoadInt32(&flag) == 0 {
				k := int(atomic.AddInt64(&id, 1))
				kit.ClientDo(client, "call", &kit.CallTag{ID: k, Start: time.Now()})
				time.Sleep(2 * time.Millisecond)
			}
		}()
	}
	return func() {
		atomic.StoreInt32(&flag, 1)
		waitAll(&wg, 5*time.Second)
	}
}

// runFailover: X refuses connections while the others stay healthy, then recovers.
func runFailover(c Case) kit.Outcome {
	hosts := names(c.Targets)
	frt := kit.NewFakeRT()
	client := newClient(c, frt, hosts)
	defer client.Close()
	x := hosts[c.X]
	t0 := time.Now()
	stop := spin(client, 1)
	at := func(ms int) { time.Sleep(time.Until(t0.Add(time.Duration(ms) * time.Millisecond))) }
	at(c.DownAtMS)
	frt.SetDown(x, true)
	downAt := time.Now()
	var upAt, down2At, endAt time.Time
	if c.RecoverAtMS >= 0 {
		at(c.RecoverAtMS)
		frt.SetDown(x, false)
		upAt = time.Now()
		time.Sleep(detect + slack + 150*time.Millisecond)
		if c.SecondOutage {
			frt.SetDown(x, true)
			down2At = time.Now()
			time.Sleep(detect + slack + 150*time.Millisecond)
		}
	} else {
		time.Sleep(detect + slack + 200*time.Millisecond)
	}
	stop()
	endAt = time.Now()
	recs := frt.Records()
	// before the outage X must have been in use (otherwise the case says nothing)
	usedBefore := false
	for _, r := range recs {
		if r.ID >= 0 && r.Addr == x && r.In.Before(downAt) {
			usedBefore = true
		}
	}
	judgeOutage := func(from, to time.Time, label string) *kit.Outcome {
		var firstFail time.Time
		for _, r := range recs {
			if r.ID < 0 || r.Addr != x || r.In.Before(from) || r.In.After(to) {
				continue
			}
			if r.Err == rpc.ErrDial && firstFail.IsZero() {
				firstFail = r.Out
			}
			if !firstFail.IsZero() && r.In.Sub(firstFail) > detect+slack {
				o := timing("failover-late", "%s: a call was still routed to %s %v after the first call to it had failed with ErrDial while other targets were healthy (bound: 100 ms + %v)", label, x, r.In.Sub(firstFail), slack)
				return &o
			}
		}
		return nil
	}
	endOfFirst := endAt
	if !upAt.IsZero() {
		endOfFirst = upAt
	}
	if o := judgeOutage(downAt, endOfFirst, "outage"); o != nil {
		return *o
	}
	if !down2At.IsZero() {
		if o := judgeOutage(down2At, endAt, "second outage"); o != nil {
			return *o
		}
	}
	if !upAt.IsZero() {
		// X is used again after it recovers
		limit := upAt.Add(detect + slack + 150*time.Millisecond)
		again := false
		for _, r := range recs {
			if r.ID >= 0 && r.Addr == x && r.Err == nil && r.In.After(upAt) && r.In.Before(limit) {
				again = true
			}
		}
		if !again && usedBefore {
			return timing("not-used-after-recovery", "%s answered probes again from %v on, but no call was routed to it during the following %v although calls were made continuously", x, upAt.Sub(t0), detect+slack+150*time.Millisecond)
		}
	}
	out := kit.Outcome{Classes: []string{"failover"}}
	if usedBefore && c.RecoverAtMS >= 0 && c.SecondOutage {
		out.Nontrivial = true
		out.Classes = append(out.Classes, "down-up-down")
	}
	if usedBefore {
		out.Classes = append(out.Classes, "x-was-in-use")
	}
	return out
}

// runBlackout: the targets (all in use) go down one after the other until none is live, then one of
// them recovers and must be used again.
func runBlackout(c Case) kit.Outcome {
	hosts := names(c.Targets)
	frt := kit.NewFakeRT()
	frt.StaleProbes = c.Stale
	for i, h := range hosts {
		frt.SetPingLatency(h, time.Duration(c.PingMS)*time.Millisecond)
		if i < len(c.FailDelayMS) {
			if c.FailDelayMS[i] < 0 || c.FailDelayMS[i] > 2000 {
				return kit.Outcome{Invalid: true}
			}
			frt.SetFailDelay(h, time.Duration(c.FailDelayMS[i])*time.Millisecond)
		}
	}
	client := newClient(c, frt, hosts)
	defer client.Close()
	t0 := time.Now()
	stop := spin(client, 3)
	stopped := false
	defer func() {
		if !stopped {
			stop()
		}
	}()
	time.Sleep(time.Until(t0.Add(time.Duration(c.DownAtMS) * time.Millisecond)))
	for i, h := range hosts {
		if i > 0 {
			time.Sleep(time.Duration(c.GapMS) * time.Millisecond)
		}
		frt.SetDown(h, true)
	}
	allDownAt := time.Now()
	time.Sleep(time.Duration(c.RecoverAtMS) * time.Millisecond)
	back := hosts[c.Recoverer]
	frt.SetDown(back, false)
	upAt := time.Now()
	window := detect + slack + 150*time.Millisecond + 2*time.Duration(c.PingMS)*time.Millisecond
	// both callers may sit inside a slowly failing call across the moment of recovery, and probes
	// that started before it fail as late as one fail delay after it (knocking the target out once
	// more until the next detector period)
	maxFail := 0
	for _, ms := range c.FailDelayMS {
		if ms > maxFail {
			maxFail = ms
		}
	}
	window += time.Duration(maxFail)*time.Millisecond + detect
	time.Sleep(window)
	stop()
	stopped = true
	usedBefore, again := false, false
	for _, r := range frt.Records() {
		if r.ID < 0 || r.Addr != back {
			continue
		}
		if r.In.Before(allDownAt) && r.Err == nil {
			usedBefore = true
		}
		if r.Err == nil && r.In.After(upAt) {
			again = true
		}
	}
	out := kit.Outcome{Classes: []string{"blackout"}}
	if !usedBefore {
		out.Classes = append(out.Classes, "recoverer-was-never-used")
		return out
	}
	if !again {
		return timing("not-used-after-recovery", "all %d targets went down (they had been serving calls), %s came back %v later and answers health probes again, but no call was routed to it during the following %v although two callers were calling continuously (probe duration %d ms, stale probes %v, gap %d ms)", c.Targets, back, upAt.Sub(allDownAt), window, c.PingMS, c.Stale, c.GapMS)
	}
	out.Nontrivial = true
	return out
}

// runFallback: during Fallback(d) no call is routed; afterwards routing resumes.
func runFallback(c Case) kit.Outcome {
	hosts := names(c.Targets)
	frt := kit.NewFakeRT()
	client := newClient(c, frt, hosts)
	defer client.Close()
	t0 := time.Now()
	stop := spin(client, 2)
	time.Sleep(time.Until(t0.Add(time.Duration(c.FallbackAtMS) * time.Millisecond)))
	d := time.Duration(c.FallbackMS) * time.Millisecond
	fbBefore := time.Now() // the pause ends between fbBefore+d and fbAt+d
	client.Fallback(d)
	fbAt := time.Now()
	// callers that start during the pause wait
	res, wg := startCallers(client, c, fbAt.Add(10*time.Millisecond))
	time.Sleep(d + detect + slack + 100*time.Millisecond)
	stop()
	if !waitAll(wg, 3*time.Second) {
		return timing("stranded", "a caller that started during Fallback was still blocked 3 s after the pause ended")
	}
	recs := frt.Records()
	routedBefore, routedAfter := 0, 0
	for _, r := range recs {
		if r.ID < 0 || r.Addr == "" {
			continue
		}
		switch {
		case r.In.Before(fbAt):
			routedBefore++
		case r.In.After(fbAt.Add(5*time.Millisecond)) && r.In.Before(fbBefore.Add(d-5*time.Millisecond)) && r.Start.After(fbAt):
			return kit.Fail("routed-during-fallback", "a call that started %v after Fallback(%v) began was routed to %s %v into the pause", r.Start.Sub(fbAt), d, r.Addr, r.In.Sub(fbAt))
		case r.In.After(fbAt.Add(d)):
			routedAfter++
		}
	}
	if routedBefore == 0 {
		return kit.Outcome{Classes: []string{"fallback", "no-traffic-before"}}
	}
	if routedAfter == 0 {
		return timing("routing-does-not-resume", "no call was routed during the %v after Fallback(%v) ended although callers were waiting", detect+slack+100*time.Millisecond, d)
	}
	waiters := 0
	for _, r := range res {
		waiters++
		if r.err != nil {
			return timing("waiter-failed", "%s caller %d, started during Fallback(%v) with DialTimeout %d ms, failed with %v", r.caller.Form, r.id, d, c.DialTimeoutMS, r.err)
		}
		if r.ended.Sub(fbAt) > d+detect+slack {
			return timing("released-late", "%s caller %d was released %v after the Fallback pause ended", r.caller.Form, r.id, r.ended.Sub(fbAt.Add(d)))
		}
	}
	out := kit.Outcome{Classes: []string{"fallback"}}
	if waiters >= 1 {
		out.Nontrivial = true
	}
	return out
}

var prop = kit.Property[Case]{
	ID:    "C18",
	Level: "exploration",
	Rule:  "rapid-generated scenarios against a real Client over a scripted fake RoundTripper (targets refuse with ErrDial when scripted down), DialTimeout 150/400/1000 ms, RoundRobin/Random: (wait) 1-3 targets that have never been up, 1-12 callers of every form starting at 0-60 ms, one target coming up at a drawn time or never; (close) the same with Client.Close at 0-300 ms, then calls of every form after Close; (failover) 2-4 healthy targets under continuous timed calls, target X down at 150-300 ms, optionally up again 200-600 ms later and down once more; (fallback) Fallback(60-300 ms) under continuous calls with extra callers starting inside the pause. Oracle: waiting callers are routed within 100 ms (detector period) + 250 ms of a target becoming live, otherwise return after >= DialTimeout-5 ms and <= DialTimeout+500 ms with ErrTimeout (Call, CallWithContext) or any error (other forms); waiters return within 500 ms of Close with ErrShutdown / any error and every call after Close fails at once; after the first timed call to X failed with ErrDial no call is routed to X later than 350 ms afterwards, and X is used again within 500 ms of recovering; no call that started inside a Fallback pause is routed during it and routing resumes afterwards. Non-trivial: >= 2 concurrent waiters, a Close or Fallback with >= 1 waiting caller, or a down-up-down history of a target that was in use; distinct by SHA-1 of the case.",
	Assumptions: []string{
		"'no target is live' is asserted only for targets that have never been up (with a single target the Client never marks it dead)",
		"all bounds are wall-clock and must reproduce in isolation (rule T); detector period is the library's fixed 100 ms",
		"every Ping seen by the fake transport is a detector probe (no user-level Ping is generated)",
	},
	Gen: gen,
	Run: run,
}

func TestProperty(t *testing.T) { kit.Check(t, prop) }
