package kit

import (
	"crypto/sha1"
	"encoding/hex"
	"encoding/json"
	"flag"
	"fmt"
	"os"
	"sort"
	"strings"
	"sync"
	"testing"
	"time"

	"pgregory.net/rapid"
)

// Outcome is what running one case against the library produced.
type Outcome struct {
	// Violation is empty when the property held on this case.
	Violation string `json:"violation,omitempty"`
	// Clause names the oracle clause that failed (part of a finding's signature).
	Clause string `json:"clause,omitempty"`
	// Sig describes the trigger class of the case (part of a finding's signature).
	Sig string `json:"sig,omitempty"`
	// Undecided is set when the harness could not judge the case (for instance a wait of the
	// harness itself timed out on something the property does not speak about). It stops the
	// run and makes the driver exit 2, never a VIOLATION.
	Undecided string `json:"undecided,omitempty"`
	// Timing marks a violation of a wall-clock bound (rule T: must reproduce alone).
	Timing bool `json:"timing,omitempty"`
	// Invalid marks a case that is not well-formed (only possible after driver-side shrinking).
	Invalid bool `json:"invalid,omitempty"`
	// Nontrivial says whether the case satisfies the property's non-triviality rule.
	Nontrivial bool `json:"nontrivial,omitempty"`
	// Classes lists the generator classes the case falls in (distribution counters).
	Classes []string `json:"classes,omitempty"`
	// Counters are summed over the run and reported in evidence.
	Counters map[string]int `json:"counters,omitempty"`
	// History is a human-readable trace of what was observed (kept for failures only).
	History []string `json:"history,omitempty"`
}

// Undecided builds an outcome the harness could not judge.
func Undecided(format string, args ...interface{}) Outcome {
	return Outcome{Undecided: fmt.Sprintf(format, args...), Clause: "undecided"}
}

// Fail builds a violating outcome.
func Fail(clause, format string, args ...interface{}) Outcome {
	return Outcome{Violation: fmt.Sprintf(format, args...), Clause: clause}
}

// Property is one listed property stated as generator + interpreter.
type Property[C any] struct {
	ID          string
	Level       string // exploration | fault_enumeration
	Rule        string // how cases are generated and what makes one non-trivial
	Assumptions []string
	Gen         func(t *rapid.T) C
	// Enum, when non-nil, yields the deterministic enumeration (mode=enum); tier is quick|thorough.
	Enum func(tier string, yield func(C))
	Run  func(c C) Outcome
	// EnumExhaustive names the sub-spaces Enum covers completely.
	EnumExhaustive []string
}

var (
	flagReplay  = flag.String("verif.replay", "", "replay file (bypasses rapid)")
	flagRepeat  = flag.Int("verif.repeat", 1, "repetitions in replay mode")
	flagOut     = flag.String("verif.out", "", "result file")
	flagJournal = flag.String("verif.journal", "", "journal file")
	flagTier    = flag.String("verif.tier", "quick", "quick|thorough")
	flagMode    = flag.String("verif.mode", "rapid", "rapid|enum")
	flagShard   = flag.Int("verif.shard", 0, "shard index")
	flagShards  = flag.Int("verif.shards", 1, "number of shards")
	flagStopAt  = flag.Int("verif.maxfail", 1, "stop enum after this many failures")
)

// Tier returns the tier the worker was started for.
func Tier() string { return *flagTier }

// Thorough reports whether the thorough tier is running.
func Thorough() bool { return *flagTier == "thorough" }

// Failure is a failing case as reported to the driver.
type Failure struct {
	Case    json.RawMessage `json:"case"`
	Outcome Outcome         `json:"outcome"`
	Final   bool            `json:"final,omitempty"` // the last (minimal) failing case rapid ran
}

// Result is the per-shard result file.
type Result struct {
	Property     string            `json:"property"`
	Mode         string            `json:"mode"`
	Tier         string            `json:"tier"`
	Level        string            `json:"level"`
	Rule         string            `json:"rule"`
	Assumptions  []string          `json:"assumptions"`
	Executed     int               `json:"executed"`
	Invalid      int               `json:"invalid"`
	Nontrivial   []string          `json:"nontrivial_hashes"`
	Classes      map[string]int    `json:"classes"`
	Counters     map[string]int    `json:"counters"`
	Samples      []json.RawMessage `json:"samples"`
	Failures     []Failure         `json:"failures"`
	Exhaustive   []string          `json:"exhaustive,omitempty"`
	EnumComplete bool              `json:"enum_complete,omitempty"`
	WallS        float64           `json:"wall_s"`
	ReplayRuns   int               `json:"replay_runs,omitempty"`
	ReplayFails  int               `json:"replay_fails,omitempty"`
	Done         bool              `json:"done"`
}

type collector struct {
	mu       sync.Mutex
	res      Result
	hashes   map[string]struct{}
	journal  *os.File
	first    json.RawMessage
	largest  json.RawMessage
	last     json.RawMessage
	start    time.Time
	failures []Failure
}

func newCollector(id, level, rule string, assumptions []string) *collector {
	c := &collector{hashes: map[string]struct{}{}, start: time.Now()}
	c.res = Result{Property: id, Mode: *flagMode, Tier: *flagTier, Level: level, Rule: rule,
		Assumptions: assumptions, Classes: map[string]int{}, Counters: map[string]int{}}
	if *flagJournal != "" {
		f, err := os.OpenFile(*flagJournal, os.O_CREATE|os.O_WRONLY|os.O_TRUNC, 0o644)
		if err == nil {
			c.journal = f
		}
	}
	return c
}

func (c *collector) begin(raw []byte) {
	if c.journal != nil {
		c.journal.Write(append(append([]byte("B "), raw...), '\n'))
	}
}

func (c *collector) end(raw []byte, out Outcome) {
	c.mu.Lock()
	defer c.mu.Unlock()
	if c.journal != nil {
		if out.Violation != "" {
			c.journal.Write([]byte("F\n"))
		} else {
			c.journal.Write([]byte("E\n"))
		}
	}
	c.res.Executed++
	if out.Invalid {
		c.res.Invalid++
		return
	}
	for _, cl := range out.Classes {
		c.res.Classes[cl]++
	}
	for k, v := range out.Counters {
		c.res.Counters[k] += v
	}
	if out.Nontrivial {
		c.res.Classes["nontrivial"]++
		h := sha1.Sum(raw)
		c.hashes[hex.EncodeToString(h[:8])] = struct{}{}
		cp := append(json.RawMessage(nil), raw...)
		if c.first == nil {
			c.first = cp
		}
		if len(cp) > len(c.largest) && len(cp) < 1<<16 {
			c.largest = cp
		}
		c.last = cp
	}
	if out.Violation != "" || out.Undecided != "" {
		c.failures = append(c.failures, Failure{Case: append(json.RawMessage(nil), raw...), Outcome: out})
		if len(c.failures) > 40 {
			// keep the first few and the most recent ones
			c.failures = append(c.failures[:5], c.failures[len(c.failures)-30:]...)
		}
	}
}

func (c *collector) write(done bool) {
	c.mu.Lock()
	defer c.mu.Unlock()
	if *flagOut == "" {
		return
	}
	c.res.Nontrivial = c.res.Nontrivial[:0]
	for h := range c.hashes {
		c.res.Nontrivial = append(c.res.Nontrivial, h)
	}
	sort.Strings(c.res.Nontrivial)
	c.res.Samples = nil
	for _, s := range []json.RawMessage{c.first, c.largest, c.last} {
		if s != nil {
			c.res.Samples = append(c.res.Samples, s)
		}
	}
	c.res.Failures = c.failures
	if n := len(c.res.Failures); n > 0 {
		c.res.Failures[n-1].Final = true
	}
	c.res.WallS = time.Since(c.start).Seconds()
	c.res.Done = done
	b, _ := json.Marshal(&c.res)
	tmp := *flagOut + ".tmp"
	if err := os.WriteFile(tmp, b, 0o644); err == nil {
		os.Rename(tmp, *flagOut)
	}
}

// ReplayFile is the on-disk form of a replay / regression case.
type ReplayFile struct {
	Property string          `json:"property"`
	Case     json.RawMessage `json:"case"`
	Outcome  *Outcome        `json:"outcome,omitempty"`
	Repeat   int             `json:"repeat,omitempty"`
	Rate     string          `json:"observed_failure_rate,omitempty"`
	Note     string          `json:"note,omitempty"`
}

// Check runs the property in the mode selected by the worker flags.
func Check[C any](t *testing.T, p Property[C]) {
	col := newCollector(p.ID, p.Level, p.Rule, p.Assumptions)
	defer col.write(true)
	runOne := func(c C) (Outcome, []byte) {
		raw, err := json.Marshal(c)
		if err != nil {
			t.Fatalf("case not serialisable: %v", err)
		}
		col.begin(raw)
		out := p.Run(c)
		col.end(raw, out)
		return out, raw
	}
	switch {
	case *flagReplay != "":
		b, err := os.ReadFile(*flagReplay)
		if err != nil {
			t.Fatalf("replay: %v", err)
		}
		var rf ReplayFile
		if err := json.Unmarshal(b, &rf); err != nil || len(rf.Case) == 0 {
			rf.Case = b
		}
		col.res.Mode = "replay"
		fails := 0
		var firstOut Outcome
		for i := 0; i < *flagRepeat; i++ {
			var c C
			dec := json.NewDecoder(strings.NewReader(string(rf.Case)))
			if err := dec.Decode(&c); err != nil {
				col.mu.Lock()
				col.res.Invalid++
				col.mu.Unlock()
				t.Logf("replay: undecodable case: %v", err)
				return
			}
			out, _ := runOne(c)
			col.res.ReplayRuns++
			if out.Invalid {
				return
			}
			if out.Violation != "" {
				if fails == 0 {
					firstOut = out
				}
				fails++
				col.res.ReplayFails = fails
				break // one failing repetition settles it
			}
		}
		if fails > 0 {
			t.Errorf("replay: %d/%d repetitions violated: [%s] %s", fails, *flagRepeat, firstOut.Clause, firstOut.Violation)
		}
	case *flagMode == "enum":
		if p.Enum == nil {
			col.res.EnumComplete = true
			return
		}
		i := 0
		fails := 0
		stopped := false
		lastWrite := time.Now()
		p.Enum(*flagTier, func(c C) {
			idx := i
			i++
			if stopped || idx%*flagShards != *flagShard {
				return
			}
			out, _ := runOne(c)
			if out.Violation != "" {
				fails++
				t.Errorf("enum case %d: [%s] %s", idx, out.Clause, out.Violation)
				if fails >= *flagStopAt {
					stopped = true
				}
			}
			if time.Since(lastWrite) > 5*time.Second {
				col.write(false)
				lastWrite = time.Now()
			}
		})
		col.res.EnumComplete = !stopped
		col.res.Exhaustive = p.EnumExhaustive
	default:
		lastWrite := time.Now()
		rapid.Check(t, func(rt *rapid.T) {
			c := p.Gen(rt)
			out, _ := runOne(c)
			if time.Since(lastWrite) > 5*time.Second {
				col.write(false)
				lastWrite = time.Now()
			}
			if out.Violation != "" {
				rt.Fatalf("[%s] %s", out.Clause, out.Violation)
			}
			if out.Undecided != "" {
				rt.Fatalf("[undecided] %s", out.Undecided)
			}
		})
	}
}
