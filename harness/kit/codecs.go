package kit

import (
	"fmt"

	"github.com/hslam/rpc"
)

// Extra directives understood by FailCodec (body codec failures on demand).
const (
	DirFailEncReq = 10 // the client cannot encode the request
	DirFailDecReq = 11 // the server cannot decode the arguments
	DirFailEncRes = 12 // the server cannot encode the reply
)

// FailCodec is the zero-copy bytes body codec with failures on demand: the directive byte of
// the payload selects which encode/decode step fails. Side is "client" or "server".
type FailCodec struct {
	Side string
}

// CodecErrText is the error text FailCodec produces.
func CodecErrText(what string, id uint64) string {
	return fmt.Sprintf("failcodec: cannot %s of call %d", what, id)
}

// Marshal implements rpc.Codec.
func (c *FailCodec) Marshal(buf []byte, v interface{}) ([]byte, error) {
	b := *v.(*[]byte)
	if len(b) >= HeaderLen {
		id, dir, _ := ParsePayload(b)
		if c.Side == "client" && dir == DirFailEncReq {
			return nil, fmt.Errorf("%s", CodecErrText("encode request", id))
		}
		if c.Side == "server" && ^b[8] == DirFailEncRes {
			rid, _, _ := ParsePayload(Transform(b[:HeaderLen]))
			return nil, fmt.Errorf("%s", CodecErrText("encode reply", rid))
		}
	}
	return b, nil
}

// Unmarshal implements rpc.Codec.
func (c *FailCodec) Unmarshal(data []byte, v interface{}) error {
	if len(data) >= HeaderLen && c.Side == "server" {
		id, dir, _ := ParsePayload(data)
		if dir == DirFailDecReq {
			return fmt.Errorf("%s", CodecErrText("decode args", id))
		}
	}
	*v.(*[]byte) = data
	return nil
}

// FailCodecFor returns a constructor for one side.
func FailCodecFor(side string) func() rpc.Codec {
	return func() rpc.Codec { return &FailCodec{Side: side} }
}
