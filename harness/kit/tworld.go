package kit

import (
	"context"
	"fmt"
	"sync"
	"sync/atomic"
	"time"

	"github.com/hslam/rpc"
)

// TCfg configures a transport world.
type TCfg struct {
	Addrs     int    `json:"addrs"`
	Max       int    `json:"max"`      // Transport.MaxConnsPerHost as given (may be <= 0)
	MaxIdle   int    `json:"max_idle"` // Transport.MaxIdleConnsPerHost as given
	KeepAlive int    `json:"keep_alive_ticks"`
	IdleTO    int    `json:"idle_timeout_ticks"`
	TickUS    int    `json:"tick_us"` // housekeeping tick in microseconds (verif hook)
	Enc       string `json:"enc"`
}

// Valid reports whether the configuration is well-formed.
func (c TCfg) Valid() bool {
	if c.Enc != "default" && HeaderEncoder(c.Enc) == nil {
		return false
	}
	return c.Addrs >= 1 && c.Addrs <= 6 && c.Max >= -2 && c.Max <= 16 && c.MaxIdle >= -2 && c.MaxIdle <= 16 &&
		c.KeepAlive >= 1 && c.KeepAlive <= 2000 && c.IdleTO >= 1 && c.IdleTO <= 2000 && c.TickUS >= 200 && c.TickUS <= 1000000
}

// EffMax is the documented effective connection limit.
func (c TCfg) EffMax() int {
	if c.Max < 1 {
		return rpc.DefaultMaxConnsPerHost
	}
	return c.Max
}

// EffMaxIdle is the documented effective idle limit (default when non-positive, clamped to EffMax).
func (c TCfg) EffMaxIdle() int {
	m := c.MaxIdle
	if m < 1 {
		m = rpc.DefaultMaxIdleConnsPerHost
	}
	if m > c.EffMax() {
		m = c.EffMax()
	}
	return m
}

// Tick returns the housekeeping tick.
func (c TCfg) Tick() time.Duration { return time.Duration(c.TickUS) * time.Microsecond }

type tServer struct {
	addr string
	env  *Env
	srv  *rpc.Server
	up   bool
	ret  chan error
	inc  int
}

// TWorld is a real Transport over the counting in-memory network with one server per address.
type TWorld struct {
	Cfg     TCfg
	Net     *Net
	Tr      *rpc.Transport
	Addrs   []string
	servers []*tServer
	opts    *rpc.Options
	mu      sync.Mutex
	nextID  uint64
	// dial-time invariant violations recorded by the hook
	OverLimit []string
	peak      map[string]int
}

var tworldSeq int64

// NewTWorld builds the world and starts every server.
func NewTWorld(cfg TCfg) (*TWorld, error) {
	w := &TWorld{Cfg: cfg, Net: NewNet(), peak: map[string]int{}}
	m := Modes{Enc: cfg.Enc, Link: "bytes"}
	w.opts = m.Options(w.Net)
	n := atomic.AddInt64(&tworldSeq, 1)
	for i := 0; i < cfg.Addrs; i++ {
		s := &tServer{addr: fmt.Sprintf("tw%d-%d", n, i), env: NewEnv()}
		w.servers = append(w.servers, s)
		w.Addrs = append(w.Addrs, s.addr)
		if err := w.start(i); err != nil {
			return nil, err
		}
	}
	eff := cfg.EffMax()
	w.Net.DialHook = func(addr string, openBefore int) {
		w.mu.Lock()
		if openBefore+1 > w.peak[addr] {
			w.peak[addr] = openBefore + 1
		}
		if openBefore+1 > eff {
			w.OverLimit = append(w.OverLimit, fmt.Sprintf("dial to %s while %d connections to it were open (limit %d)", addr, openBefore, eff))
		}
		w.mu.Unlock()
	}
	w.Tr = &rpc.Transport{
		Options:             w.opts,
		MaxConnsPerHost:     cfg.Max,
		MaxIdleConnsPerHost: cfg.MaxIdle,
		KeepAlive:           time.Duration(cfg.KeepAlive) * cfg.Tick(),
		IdleConnTimeout:     time.Duration(cfg.IdleTO) * cfg.Tick(),
	}
	rpc.VerifSetTransportTick(w.Tr, cfg.Tick())
	return w, nil
}

func (w *TWorld) start(i int) error {
	s := w.servers[i]
	s.srv = NewServer(s.env, false, false)
	s.ret = make(chan error, 1)
	srv, ret := s.srv, s.ret
	go func() { ret <- srv.ListenWithOptions(s.addr, w.opts) }()
	if !w.Net.WaitListening(s.addr, 5*time.Second) {
		return fmt.Errorf("harness: server %s did not start", s.addr)
	}
	s.up = true
	s.inc++
	return nil
}

// Up reports whether server i is running.
func (w *TWorld) Up(i int) bool { return w.servers[i].up }

// Env returns the environment (execution log, gates) of server i.
func (w *TWorld) Env(i int) *Env { return w.servers[i].env }

// Kill stops server i abruptly: listener closed, every accepted connection closed.
// It returns the number of client endpoints that were open to it.
func (w *TWorld) Kill(i int) int {
	s := w.servers[i]
	if !s.up {
		return 0
	}
	open := w.Net.OpenClient(s.addr)
	// "listening" on the network precedes the Server's own record of its listener by a few
	// instructions; a Close in that window finds nothing to close, so Close is repeated until
	// Listen has returned
	for tries := 0; tries < 50; tries++ {
		s.srv.Close()
		w.Net.SeverServerSide(s.addr, nil)
		stopped := false
		select {
		case <-s.ret:
			stopped = true
		case <-time.After(100 * time.Millisecond):
		}
		if stopped {
			break
		}
	}
	s.up = false
	return open
}

// Restart starts server i again on the same address.
func (w *TWorld) Restart(i int) error {
	if w.servers[i].up {
		return nil
	}
	return w.start(i)
}

// NextID returns a fresh call id.
func (w *TWorld) NextID() uint64 { return atomic.AddUint64(&w.nextID, 1) }

// CallResult is the outcome of one call through the Transport.
type CallResult struct {
	ID      uint64
	Err     error
	ReplyOK bool
	Timeout bool
	Took    time.Duration
}

// DoAsync starts a call and returns its id and a channel with the result.
func (w *TWorld) DoAsync(i int, form string, dir byte, bound time.Duration) (uint64, chan CallResult) {
	id := w.NextID()
	ch := make(chan CallResult, 1)
	go func() { ch <- w.doID(id, i, form, dir, bound) }()
	return id, ch
}

// Do performs one call of the given form to address i and waits for it (bounded).
func (w *TWorld) Do(i int, form string, dir byte, bound time.Duration) CallResult {
	return w.doID(w.NextID(), i, form, dir, bound)
}

func (w *TWorld) doID(id uint64, i int, form string, dir byte, bound time.Duration) CallResult {
	args := MakePayload(id, dir, uint32(id), 48)
	var reply []byte
	addr := w.Addrs[i]
	rc := make(chan error, 1)
	start := time.Now()
	go func() {
		switch form {
		case "call":
			rc <- w.Tr.Call(addr, "S.Echo", &args, &reply)
		case "ctx":
			rc <- w.Tr.CallWithContext(context.Background(), addr, "S.EchoCtx", &args, &reply)
		case "go":
			c := w.Tr.Go(addr, "S.EchoRet", &args, &reply, make(chan *rpc.Call, 1))
			<-c.Done
			rc <- c.Error
		case "roundtrip":
			c := w.Tr.RoundTrip(addr, &rpc.Call{ServiceMethod: "S.Echo", Args: &args, Reply: &reply, Done: make(chan *rpc.Call, 1)})
			<-c.Done
			rc <- c.Error
		case "ping":
			rc <- w.Tr.Ping(addr)
		default:
			rc <- fmt.Errorf("harness: unknown form %s", form)
		}
	}()
	res := CallResult{ID: id}
	select {
	case res.Err = <-rc:
	case <-time.After(bound):
		res.Timeout = true
	}
	res.Took = time.Since(start)
	if res.Err == nil && !res.Timeout {
		res.ReplyOK = form == "ping" || string(reply) == string(Transform(args))
	}
	return res
}

// ExecutedAt returns the indices of the servers whose handler executed call id.
func (w *TWorld) ExecutedAt(id uint64) []int {
	var out []int
	for i, s := range w.servers {
		for _, e := range s.env.Log() {
			if e.ID == id {
				out = append(out, i)
			}
		}
	}
	return out
}

// Peak returns the highest number of simultaneously open client connections seen at dial time.
func (w *TWorld) Peak(addr string) int {
	w.mu.Lock()
	defer w.mu.Unlock()
	return w.peak[addr]
}

// Violations returns the dial-time limit violations recorded so far.
func (w *TWorld) Violations() []string {
	w.mu.Lock()
	defer w.mu.Unlock()
	return append([]string(nil), w.OverLimit...)
}

// Close shuts everything down.
func (w *TWorld) Close() {
	for _, s := range w.servers {
		s.env.OpenAll()
	}
	w.Tr.Close()
	for i := range w.servers {
		w.Kill(i)
	}
}
