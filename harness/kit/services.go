package kit

import (
	"context"
	"crypto/sha1"
	"encoding/binary"
	"errors"
	"sync"
	"sync/atomic"
	"time"

	"github.com/hslam/rpc"
)

// Payload layout (bytes body). Payloads shorter than HeaderLen are "raw": pure PRNG bytes,
// always echoed.
//
//	[0:8]   call id (big endian)
//	[8]     directive (DirEcho, DirFail, DirGate, DirGateFail)
//	[9:12]  zero
//	[12:16] salt
//	[16:]   body: PRNG bytes expanded from (id, salt), or the error text when failing
const HeaderLen = 16

// Directives a request can carry for the handler.
const (
	DirEcho     = 0 // reply = Transform(args)
	DirFail     = 1 // return errors.New(body)
	DirGate     = 2 // wait for the gate of this id, then echo
	DirGateFail = 3 // wait for the gate, then fail
)

// RawID is the id logged for raw (header-less) payloads.
const RawID = ^uint64(0)

// splitmix64 PRNG: payload bytes are a pure function of (id, salt).
type prng struct{ s uint64 }

func (p *prng) next() uint64 {
	p.s += 0x9e3779b97f4a7c15
	z := p.s
	z = (z ^ (z >> 30)) * 0xbf58476d1ce4e5b9
	z = (z ^ (z >> 27)) * 0x94d049bb133111eb
	return z ^ (z >> 31)
}

// FillBytes fills b with PRNG bytes derived from (id, salt).
func FillBytes(b []byte, id uint64, salt uint32) {
	p := prng{s: id*0x100000001b3 ^ uint64(salt)<<17 ^ 0xabcdef}
	i := 0
	for ; i+8 <= len(b); i += 8 {
		binary.LittleEndian.PutUint64(b[i:], p.next())
	}
	if i < len(b) {
		var t [8]byte
		binary.LittleEndian.PutUint64(t[:], p.next())
		copy(b[i:], t[:])
	}
}

// MakePayload builds a payload of exactly n bytes (raw when n < HeaderLen).
func MakePayload(id uint64, dir byte, salt uint32, n int) []byte {
	b := make([]byte, n)
	if n < HeaderLen {
		FillBytes(b, id, salt)
		return b
	}
	binary.BigEndian.PutUint64(b[0:8], id)
	b[8] = dir
	binary.BigEndian.PutUint32(b[12:16], salt)
	FillBytes(b[HeaderLen:], id, salt)
	return b
}

// MakeFailPayload builds a payload whose handler fails with the given text.
func MakeFailPayload(id uint64, gated bool, text string) []byte {
	b := make([]byte, HeaderLen+len(text))
	binary.BigEndian.PutUint64(b[0:8], id)
	b[8] = DirFail
	if gated {
		b[8] = DirGateFail
	}
	copy(b[HeaderLen:], text)
	return b
}

// ParsePayload extracts id and directive.
func ParsePayload(b []byte) (id uint64, dir byte, ok bool) {
	if len(b) < HeaderLen {
		return RawID, DirEcho, false
	}
	return binary.BigEndian.Uint64(b[0:8]), b[8], true
}

// Transform is the bijective function every echo handler applies: bitwise NOT of each byte.
func Transform(args []byte) []byte {
	out := make([]byte, len(args))
	for i, c := range args {
		out[i] = ^c
	}
	return out
}

// Exec is one handler execution.
type Exec struct {
	ID      uint64
	Method  string
	ArgsSHA [20]byte
	ArgsLen int
	Start   int64
	End     int64
	Failed  bool
}

// Env is the server-side world of one case: execution log, gates, retained data.
type Env struct {
	mu       sync.Mutex
	log      []Exec
	tick     int64
	gates    map[uint64]chan struct{}
	openAll  bool
	retain   bool
	retained []Retained
	FreeCtx  bool // handlers with a context call rpc.FreeContextBuffer like the repository's example
	// stream behaviour
	streamMu  sync.Mutex
	streamLog map[uint64]*StreamRecord
	streamSeq uint64
	StreamFn  func(env *Env, s *HStream) error
	GateWait  time.Duration
	plans     map[int]StreamPlan
	slots     map[int]*StreamSlotRecord
}

// Retained is a slice handed to user code together with its digest at hand-over time.
type Retained struct {
	What   string
	ID     uint64
	Data   []byte
	Digest [20]byte
}

// NewEnv returns a fresh Env.
func NewEnv() *Env {
	return &Env{gates: map[uint64]chan struct{}{}, streamLog: map[uint64]*StreamRecord{}, GateWait: 20 * time.Second}
}

// Tick returns the next logical time stamp.
func (e *Env) Tick() int64 { return atomic.AddInt64(&e.tick, 1) }

func (e *Env) gate(id uint64) chan struct{} {
	e.mu.Lock()
	defer e.mu.Unlock()
	g, ok := e.gates[id]
	if !ok {
		g = make(chan struct{})
		if e.openAll {
			close(g)
		}
		e.gates[id] = g
	}
	return g
}

// Open opens the gate of one call id (idempotent).
func (e *Env) Open(id uint64) {
	g := e.gate(id)
	e.mu.Lock()
	select {
	case <-g:
	default:
		close(g)
	}
	e.mu.Unlock()
}

// OpenAll opens every gate, present and future.
func (e *Env) OpenAll() {
	e.mu.Lock()
	e.openAll = true
	for _, g := range e.gates {
		select {
		case <-g:
		default:
			close(g)
		}
	}
	e.mu.Unlock()
}

// SetRetain makes handlers keep the argument slices they were given.
func (e *Env) SetRetain(on bool) { e.retain = on }

// Retain records a slice handed to user code.
func (e *Env) Retain(what string, id uint64, data []byte) {
	r := Retained{What: what, ID: id, Data: data, Digest: sha1.Sum(data)}
	e.mu.Lock()
	e.retained = append(e.retained, r)
	e.mu.Unlock()
}

// RetainedSnapshot returns the retained records.
func (e *Env) RetainedSnapshot() []Retained {
	e.mu.Lock()
	defer e.mu.Unlock()
	return append([]Retained(nil), e.retained...)
}

// Log returns a copy of the execution log.
func (e *Env) Log() []Exec {
	e.mu.Lock()
	defer e.mu.Unlock()
	return append([]Exec(nil), e.log...)
}

// LogLen returns the number of started executions.
func (e *Env) LogLen() int {
	e.mu.Lock()
	defer e.mu.Unlock()
	return len(e.log)
}

// Finished returns the number of finished executions.
func (e *Env) Finished() int {
	e.mu.Lock()
	defer e.mu.Unlock()
	n := 0
	for i := range e.log {
		if e.log[i].End != 0 {
			n++
		}
	}
	return n
}

// WaitStarted waits until n handler executions have started.
func (e *Env) WaitStarted(n int, d time.Duration) bool {
	deadline := time.Now().Add(d)
	for e.LogLen() < n {
		if time.Now().After(deadline) {
			return false
		}
		time.Sleep(50 * time.Microsecond)
	}
	return true
}

// WaitFinished waits until n handler executions have finished.
func (e *Env) WaitFinished(n int, d time.Duration) bool {
	deadline := time.Now().Add(d)
	for e.Finished() < n {
		if time.Now().After(deadline) {
			return false
		}
		time.Sleep(50 * time.Microsecond)
	}
	return true
}

// handle is the body shared by every unary handler shape.
func (e *Env) handle(method string, args []byte) ([]byte, error) {
	id, dir, _ := ParsePayload(args)
	ex := Exec{ID: id, Method: method, ArgsSHA: sha1.Sum(args), ArgsLen: len(args), Start: e.Tick()}
	e.mu.Lock()
	idx := len(e.log)
	e.log = append(e.log, ex)
	e.mu.Unlock()
	if e.retain {
		e.Retain("args:"+method, id, args)
	}
	if dir == DirGate || dir == DirGateFail {
		select {
		case <-e.gate(id):
		case <-time.After(e.GateWait):
		}
	}
	var reply []byte
	var err error
	if dir == DirFail || dir == DirGateFail {
		err = errors.New(string(append([]byte(nil), args[HeaderLen:]...)))
	} else {
		reply = Transform(args)
	}
	end := e.Tick()
	e.mu.Lock()
	e.log[idx].End = end
	e.log[idx].Failed = err != nil
	e.mu.Unlock()
	return reply, err
}

// Svc is the service registered (under the name "S") on every harness server. It covers
// every handler shape the server supports, over the *[]byte body type.
type Svc struct{ Env *Env }

// Echo has the shape (req, res) error.
func (s *Svc) Echo(req *[]byte, res *[]byte) error {
	r, err := s.Env.handle("S.Echo", *req)
	if err != nil {
		return err
	}
	*res = r
	return nil
}

// EchoCtx has the shape (ctx, req, res) error.
func (s *Svc) EchoCtx(ctx context.Context, req *[]byte, res *[]byte) error {
	r, err := s.Env.handle("S.EchoCtx", *req)
	if s.Env.FreeCtx {
		rpc.FreeContextBuffer(ctx)
	}
	if err != nil {
		return err
	}
	*res = r
	return nil
}

// EchoRet has the shape (req) (*res, error).
func (s *Svc) EchoRet(req *[]byte) (*[]byte, error) {
	r, err := s.Env.handle("S.EchoRet", *req)
	if err != nil {
		return nil, err
	}
	return &r, nil
}

// EchoCtxRet has the shape (ctx, req) (*res, error).
func (s *Svc) EchoCtxRet(ctx context.Context, req *[]byte) (*[]byte, error) {
	r, err := s.Env.handle("S.EchoCtxRet", *req)
	if s.Env.FreeCtx {
		rpc.FreeContextBuffer(ctx)
	}
	if err != nil {
		return nil, err
	}
	return &r, nil
}

// Methods lists the unary methods of Svc, one per handler shape.
var Methods = []string{"S.Echo", "S.EchoCtx", "S.EchoRet", "S.EchoCtxRet"}

// HStream is the server-side stream argument type (Connect/Read/Write as the server expects).
type HStream struct {
	stream rpc.Stream
}

// Connect connects the rpc Stream.
func (s *HStream) Connect(stream rpc.Stream) error {
	s.stream = stream
	return nil
}

// Read reads one message.
func (s *HStream) Read(buf []byte, m *[]byte) error { return s.stream.ReadMessage(buf, m) }

// Write writes one message.
func (s *HStream) Write(m *[]byte) error { return s.stream.WriteMessage(m) }

// StreamRecord is what a server-side stream handler observed.
type StreamRecord struct {
	Tag      uint64
	Received [][]byte
	Sent     int
	Exited   bool
	ExitErr  string
	ReadErrs []string
}

// Stream is the stream handler; its behaviour is Env.StreamFn (default: echo Transform).
func (s *Svc) Stream(st *HStream) error {
	if s.Env.StreamFn != nil {
		return s.Env.StreamFn(s.Env, st)
	}
	for {
		var m []byte
		if err := st.Read(nil, &m); err != nil {
			return err
		}
		r := Transform(m)
		if err := st.Write(&r); err != nil {
			return err
		}
	}
}

// NewServer builds a server with Svc registered and the given modes.
func NewServer(env *Env, pipelining, directIO bool) *rpc.Server {
	srv := rpc.NewServer()
	srv.SetLogLevel(rpc.OffLogLevel)
	srv.RegisterName("S", &Svc{Env: env})
	srv.SetPipelining(pipelining)
	srv.SetDirectIO(directIO)
	return srv
}

// WaitStartedIDs waits until a handler execution has started for every listed id.
func (e *Env) WaitStartedIDs(ids []uint64, d time.Duration) bool {
	deadline := time.Now().Add(d)
	for {
		e.mu.Lock()
		seen := map[uint64]bool{}
		for i := range e.log {
			seen[e.log[i].ID] = true
		}
		e.mu.Unlock()
		all := true
		for _, id := range ids {
			if !seen[id] {
				all = false
				break
			}
		}
		if all {
			return true
		}
		if time.Now().After(deadline) {
			return false
		}
		time.Sleep(100 * time.Microsecond)
	}
}

// StreamPlan tells the handler of one stream slot what to do.
type StreamPlan struct {
	Behaviour string   // echo | pushfirst | pushonly | readonly
	Pushes    [][]byte // messages the server writes first (pushfirst / pushonly)
	Reads     int      // messages the server expects to read (echo / pushfirst / readonly); -1: until the stream ends
}

// StreamSlotRecord is what the handler of one slot observed.
type StreamSlotRecord struct {
	Started  int
	Received [][]byte
	Pushed   int
	Exited   bool
	ExitErr  string
	WriteErr string
	Blocked  bool // the handler is (about to be) blocked in Read
	// after Read failed the handler tries one more Write and Read and records their errors
	LaterWriteErr string
	LaterReadErr  string
	LaterDone     bool
}

// SetStreamPlan installs the plan of a slot (0..3) before the stream is opened.
func (e *Env) SetStreamPlan(slot int, p StreamPlan) {
	e.streamMu.Lock()
	if e.plans == nil {
		e.plans = map[int]StreamPlan{}
		e.slots = map[int]*StreamSlotRecord{}
	}
	e.plans[slot] = p
	e.slots[slot] = &StreamSlotRecord{}
	e.streamMu.Unlock()
}

// StreamSlot returns a copy of a slot's record.
func (e *Env) StreamSlot(slot int) StreamSlotRecord {
	e.streamMu.Lock()
	defer e.streamMu.Unlock()
	r := e.slots[slot]
	if r == nil {
		return StreamSlotRecord{}
	}
	c := *r
	c.Received = append([][]byte(nil), r.Received...)
	return c
}

func (e *Env) runStream(slot int, st *HStream) error {
	e.streamMu.Lock()
	p, ok := e.plans[slot]
	r := e.slots[slot]
	if ok {
		r.Started++
	}
	e.streamMu.Unlock()
	if !ok {
		return errors.New("no plan for stream slot")
	}
	upd := func(f func(r *StreamSlotRecord)) {
		e.streamMu.Lock()
		f(r)
		e.streamMu.Unlock()
	}
	exit := func(err error) error {
		upd(func(r *StreamSlotRecord) {
			r.Exited = true
			if err != nil {
				r.ExitErr = err.Error()
			}
		})
		return err
	}
	if p.Behaviour == "pushfirst" || p.Behaviour == "pushonly" {
		for i := range p.Pushes {
			m := append([]byte(nil), p.Pushes[i]...)
			if err := st.Write(&m); err != nil {
				upd(func(r *StreamSlotRecord) { r.WriteErr = err.Error() })
				return exit(err)
			}
			upd(func(r *StreamSlotRecord) { r.Pushed++ })
		}
	}
	for i := 0; p.Reads < 0 || i < p.Reads || true; i++ {
		var m []byte
		upd(func(r *StreamSlotRecord) { r.Blocked = true })
		err := st.Read(nil, &m)
		upd(func(r *StreamSlotRecord) { r.Blocked = false })
		if err != nil {
			x := []byte("after-end")
			werr := st.Write(&x)
			var m2 []byte
			rerr := st.Read(nil, &m2)
			upd(func(r *StreamSlotRecord) {
				if werr != nil {
					r.LaterWriteErr = werr.Error()
				}
				if rerr != nil {
					r.LaterReadErr = rerr.Error()
				}
				r.LaterDone = true
			})
			return exit(err)
		}
		upd(func(r *StreamSlotRecord) { r.Received = append(r.Received, m) })
		if p.Behaviour == "echo" || p.Behaviour == "pushfirst" {
			rm := Transform(m)
			if err := st.Write(&rm); err != nil {
				// a write racing the end of the connection may fail with the transport's own error;
				// the handler goes back to Read, which must then report the shutdown
				upd(func(r *StreamSlotRecord) { r.WriteErr = err.Error() })
			}
		}
	}
	return exit(nil)
}

// Stream0..Stream3 are the stream handlers bound to plan slots.
func (s *Svc) Stream0(st *HStream) error { return s.Env.runStream(0, st) }

// Stream1 is the handler of slot 1.
func (s *Svc) Stream1(st *HStream) error { return s.Env.runStream(1, st) }

// Stream2 is the handler of slot 2.
func (s *Svc) Stream2(st *HStream) error { return s.Env.runStream(2, st) }

// Stream3 is the handler of slot 3.
func (s *Svc) Stream3(st *HStream) error { return s.Env.runStream(3, st) }
