package kit

import (
	"errors"
	"fmt"
	"net"
	"os"
	"path/filepath"
	"pgregory.net/rapid"
	"runtime"
	"sync/atomic"
	"time"

	"github.com/hslam/rpc"
)

// ErrCutIO is a read error the socket layer does not translate to io.EOF.
var ErrCutIO = errors.New("mem: input/output error")

// Modes are the server/client mode switches shared by many properties.
type Modes struct {
	Enc           string `json:"enc"`
	SrvPipelining bool   `json:"srv_pipelining,omitempty"`
	SrvDirect     bool   `json:"srv_direct,omitempty"`
	CliPipelining bool   `json:"cli_pipelining,omitempty"`
	CliDirect     bool   `json:"cli_direct,omitempty"`
	Poll          bool   `json:"poll,omitempty"`  // unix link only
	Link          string `json:"link"`            // frame | bytes | unix
	Chunk         int    `json:"chunk,omitempty"` // bytes link: max bytes per read (0 = unlimited)
	CtxBuf        bool   `json:"ctx_buf,omitempty"`
	SrvBuf        int    `json:"srv_buf,omitempty"` // Server.SetBufferSize
	CliBuf        int    `json:"cli_buf,omitempty"` // Options.ClientBufferSize (bytes link)
}

// Valid reports whether the modes are well-formed.
func (m Modes) Valid() bool {
	if m.Enc != "default" && HeaderEncoder(m.Enc) == nil {
		return false
	}
	if m.Link != "frame" && m.Link != "bytes" && m.Link != "unix" {
		return false
	}
	if m.Poll && m.Link != "unix" {
		return false
	}
	return m.Chunk >= 0 && m.SrvBuf >= 0 && m.CliBuf >= 0 && m.SrvBuf <= 8<<20 && m.CliBuf <= 8<<20
}

// Sig renders the modes for signatures.
func (m Modes) Sig() string {
	return fmt.Sprintf("enc=%s link=%s sp=%v sd=%v cp=%v cd=%v", m.Enc, m.Link, m.SrvPipelining, m.SrvDirect, m.CliPipelining, m.CliDirect)
}

// Options builds rpc.Options for the in-memory network.
func (m Modes) Options(n *Net) *rpc.Options { return m.OptionsWith(n, BytesCodec) }

// OptionsWith is Options with a chosen body codec constructor.
func (m Modes) OptionsWith(n *Net, body func() rpc.Codec) *rpc.Options {
	o := &rpc.Options{NewCodec: body, ClientBufferSize: m.CliBuf}
	if n != nil {
		o.NewSocket = n.NewSocket
	} else {
		o.Network = "unix"
	}
	switch m.Enc {
	case "pb", "code", "json":
		o.HeaderEncoder = m.Enc
	}
	return o
}

// DrawBuffers draws the buffer dimensions every Session-based check shares - the library must
// behave the same whatever they are: server read buffers smaller than some messages (pool size
// classes or not), the client's buffer size on the byte link, and the server's context-buffer
// mode. (Seeded changes to the buffer handling were repeatedly missed by a check that never left
// the default sizes and caught by a neighbour that did.)
func DrawBuffers(t *rapid.T, m *Modes) {
	m.SrvBuf = rapid.SampledFrom([]int{0, 0, 0, 100, 128, 3000, 4096}).Draw(t, "srv_buf")
	m.CliBuf = rapid.SampledFrom([]int{0, 0, 0, 100, 3000, 4096}).Draw(t, "cli_buf")
	if !m.CtxBuf {
		m.CtxBuf = rapid.IntRange(0, 3).Draw(t, "ctx_buf_mode") == 0
	}
}

var sessSeq int64

// Session is one real server plus real client connections over a harness-owned link.
type Session struct {
	M      Modes
	Env    *Env
	Srv    *rpc.Server
	Net    *Net         // bytes link
	Addr   string       // bytes link
	Links  []*FrameLink // frame link: one per connection
	Conns  []*rpc.Conn
	served []chan struct{}
	lisRet chan error
	// body codec constructors per side (default: the library's bytes codec)
	SrvCodec, CliCodec func() rpc.Codec
	// OnLink, when set, sees every new frame link before it carries traffic (taps, holds).
	OnLink func(*FrameLink)
}

// NewSession starts the server side.
func NewSession(m Modes) (*Session, error) { return NewSessionWith(m, BytesCodec, BytesCodec) }

// NewSessionWith is NewSession with chosen body codecs per side.
func NewSessionWith(m Modes, srvCodec, cliCodec func() rpc.Codec) (*Session, error) {
	s := &Session{M: m, Env: NewEnv(), SrvCodec: srvCodec, CliCodec: cliCodec}
	s.Srv = NewServer(s.Env, m.SrvPipelining, m.SrvDirect)
	if m.CtxBuf {
		s.Srv.SetContextBuffer(true)
	}
	if m.SrvBuf > 0 {
		s.Srv.SetBufferSize(m.SrvBuf)
	}
	if m.Link == "bytes" {
		s.Net = NewNet()
		s.Net.Chunk = m.Chunk
		s.Addr = fmt.Sprintf("mem-%d", atomic.AddInt64(&sessSeq, 1))
		s.lisRet = make(chan error, 1)
		go func() { s.lisRet <- s.Srv.ListenWithOptions(s.Addr, m.OptionsWith(s.Net, s.SrvCodec)) }()
		if !s.Net.WaitListening(s.Addr, 5*time.Second) {
			return nil, errors.New("harness: server did not start listening")
		}
	}
	if m.Link == "unix" {
		if m.Poll && runtime.GOMAXPROCS(0) < 4 {
			// netpoll's workers spin; on one or two Ps they starve everything else in the process
			// (observed: unrelated calls of later cases not completing within 10 s)
			runtime.GOMAXPROCS(4)
		}
		s.Srv.SetPoll(m.Poll)
		s.Addr = SockPath()
		s.lisRet = make(chan error, 1)
		go func() { s.lisRet <- s.Srv.ListenWithOptions(s.Addr, m.OptionsWith(nil, s.SrvCodec)) }()
		deadline := time.Now().Add(5 * time.Second)
		for {
			c, err := net.Dial("unix", s.Addr)
			if err == nil {
				c.Close()
				break
			}
			if time.Now().After(deadline) {
				return nil, errors.New("harness: unix server did not start listening: " + err.Error())
			}
			time.Sleep(200 * time.Microsecond)
		}
	}
	return s, nil
}

// SockPath returns a fresh short unix socket path inside the per-run build directory.
func SockPath() string {
	dir := os.Getenv("VERIF_BUILD")
	if dir == "" || len(dir) > 70 {
		dir = os.TempDir()
	}
	dir = filepath.Join(dir, "s")
	os.MkdirAll(dir, 0o755)
	p := filepath.Join(dir, fmt.Sprintf("%d-%d.sock", os.Getpid(), atomic.AddInt64(&sessSeq, 1)))
	os.Remove(p)
	return p
}

// Dial opens one more client connection.
func (s *Session) Dial() (*rpc.Conn, error) {
	var conn *rpc.Conn
	if s.M.Link == "bytes" || s.M.Link == "unix" {
		var err error
		conn, err = rpc.DialWithOptions(s.Addr, s.M.OptionsWith(s.Net, s.CliCodec))
		if err != nil {
			return nil, err
		}
	} else {
		link := NewFrameLink()
		s.Links = append(s.Links, link)
		if s.OnLink != nil {
			s.OnLink(link)
		}
		s.served = append(s.served, ServeLinkBuf(s.Srv, link, s.M.Enc, s.M.SrvDirect, s.SrvCodec(), s.M.SrvBuf))
		conn = rpc.NewConnWithCodec(rpc.NewClientCodec(s.CliCodec(), HeaderEncoder(s.M.Enc), link.C, s.M.CliBuf))
	}
	if s.M.CliPipelining {
		conn.SetPipelining(true)
	}
	conn.SetDirectIO(s.M.CliDirect)
	s.Conns = append(s.Conns, conn)
	return conn, nil
}

// Close ends the session: opens all gates, closes clients and server, waits (bounded) for
// the server side to wind down.
func (s *Session) Close() {
	s.Env.OpenAll()
	for _, c := range s.Conns {
		c.Close()
	}
	s.Srv.Close()
	for _, d := range s.served {
		select {
		case <-d:
		case <-time.After(5 * time.Second):
		}
	}
	if s.lisRet != nil {
		// Also for poll-mode servers (about a second, netpoll shutdown): a poll server that is still
		// winding down keeps file descriptors registered, and a descriptor number reused by the next
		// case's connection would be served by the old server (observed: requests executed by the
		// previous case's server).
		select {
		case <-s.lisRet:
		case <-time.After(8 * time.Second):
		}
	}
	if s.M.Link == "unix" {
		os.Remove(s.Addr)
	}
}
