package kit

import (
	"crypto/sha1"
	"encoding/hex"
	"fmt"
)

// MakeText returns exactly n bytes of text derived from salt.
// kind: "bytes" arbitrary bytes; "ascii" printable ASCII; "utf8" valid UTF-8 mixing ASCII,
// control characters, quotes/backslashes and 2-, 3- and 4-byte runes.
func MakeText(kind string, n int, salt uint32) string {
	if n <= 0 {
		return ""
	}
	b := make([]byte, 0, n)
	p := prng{s: uint64(salt)*0x9e3779b97f4a7c15 + 12345}
	switch kind {
	case "bytes":
		buf := make([]byte, n)
		FillBytes(buf, uint64(salt), salt^0x5a5a)
		return string(buf)
	case "ascii":
		for len(b) < n {
			b = append(b, byte(0x20+p.next()%95))
		}
		return string(b)
	default:
		multi := []string{"é", "ß", "€", "漢", "😀", "\u2028", "\u00a0", "я"}
		special := []byte{'"', '\\', '\n', '\t', '\r', 0x01, 0x1f, '<', '>', '&', 0x7f, '/'}
		for len(b) < n {
			r := p.next()
			left := n - len(b)
			switch {
			case r%7 == 0:
				m := multi[(r>>8)%uint64(len(multi))]
				if len(m) <= left {
					b = append(b, m...)
				} else {
					b = append(b, 'x')
				}
			case r%11 == 0:
				b = append(b, special[(r>>8)%uint64(len(special))])
			default:
				b = append(b, byte(0x20+(r>>8)%95))
			}
		}
		return string(b)
	}
}

// Digest returns a short hex digest for histories.
func Digest(b []byte) string {
	h := sha1.Sum(b)
	return hex.EncodeToString(h[:6])
}

// Brief renders a byte slice for histories.
func Brief(b []byte) string {
	if len(b) <= 24 {
		return fmt.Sprintf("%d:%x", len(b), b)
	}
	return fmt.Sprintf("%d:%x..#%s", len(b), b[:12], Digest(b))
}

// BriefS renders a string for histories.
func BriefS(s string) string {
	if len(s) <= 48 {
		return fmt.Sprintf("%q", s)
	}
	return fmt.Sprintf("%q..(len %d #%s)", s[:32], len(s), Digest([]byte(s)))
}
