package kit

import (
	"encoding/base64"
	"encoding/binary"
	"encoding/json"
	"errors"
	"fmt"

	"github.com/hslam/rpc"
)

// Independent reference implementation of the three documented header wire formats.
// It shares no code with hslam/rpc or hslam/code: protobuf wire format and the "code"
// format are written with encoding/binary's Uvarint, JSON with encoding/json on maps.

// Encoders lists the header encoder names used by the harness. "default" is the built-in
// encoder selected by a nil header encoder (protobuf wire format).
var Encoders = []string{"default", "pb", "code", "json"}

// HeaderEncoder returns the library's rpc.Encoder for a harness encoder name (nil for "default").
func HeaderEncoder(name string) rpc.Encoder {
	switch name {
	case "pb":
		return rpc.NewPBEncoder()
	case "code":
		return rpc.NewCODEEncoder()
	case "json":
		return rpc.NewJSONEncoder()
	}
	return nil
}

// ReqHeader is a request header in harness terms.
type ReqHeader struct {
	Seq     uint64
	Upgrade []byte
	Method  string
	Args    []byte
}

// ResHeader is a response header in harness terms.
type ResHeader struct {
	Seq   uint64
	Error string
	Reply []byte
}

var errRef = errors.New("refcodec: malformed")

func putUvarint(b []byte, v uint64) []byte {
	var tmp [binary.MaxVarintLen64]byte
	n := binary.PutUvarint(tmp[:], v)
	return append(b, tmp[:n]...)
}

func putLenDelim(b []byte, p []byte) []byte {
	b = putUvarint(b, uint64(len(p)))
	return append(b, p...)
}

func getUvarint(b []byte) (uint64, []byte, error) {
	v, n := binary.Uvarint(b)
	if n <= 0 {
		return 0, nil, errRef
	}
	return v, b[n:], nil
}

func getLenDelim(b []byte) ([]byte, []byte, error) {
	l, rest, err := getUvarint(b)
	if err != nil {
		return nil, nil, err
	}
	if uint64(len(rest)) < l {
		return nil, nil, errRef
	}
	return rest[:l], rest[l:], nil
}

func isPB(enc string) bool { return enc == "default" || enc == "pb" }

// RefEncodeRequest encodes a request header with the reference encoder.
func RefEncodeRequest(enc string, h ReqHeader) []byte {
	switch {
	case isPB(enc):
		var b []byte
		if h.Seq != 0 {
			b = append(b, 1<<3|0)
			b = putUvarint(b, h.Seq)
		}
		if len(h.Upgrade) > 0 {
			b = append(b, 2<<3|2)
			b = putLenDelim(b, h.Upgrade)
		}
		if len(h.Method) > 0 {
			b = append(b, 3<<3|2)
			b = putLenDelim(b, []byte(h.Method))
		}
		if len(h.Args) > 0 {
			b = append(b, 4<<3|2)
			b = putLenDelim(b, h.Args)
		}
		return b
	case enc == "code":
		var b []byte
		b = putUvarint(b, h.Seq)
		b = putLenDelim(b, h.Upgrade)
		b = putLenDelim(b, []byte(h.Method))
		b = putLenDelim(b, h.Args)
		return b
	case enc == "json":
		m := map[string]interface{}{"i": h.Seq, "m": h.Method}
		if h.Upgrade == nil {
			m["u"] = nil
		} else {
			m["u"] = base64.StdEncoding.EncodeToString(h.Upgrade)
		}
		if h.Args == nil {
			m["p"] = nil
		} else {
			m["p"] = base64.StdEncoding.EncodeToString(h.Args)
		}
		b, _ := json.Marshal(m)
		return b
	}
	panic("unknown encoder " + enc)
}

// RefEncodeResponse encodes a response header with the reference encoder.
func RefEncodeResponse(enc string, h ResHeader) []byte {
	switch {
	case isPB(enc):
		var b []byte
		if h.Seq != 0 {
			b = append(b, 1<<3|0)
			b = putUvarint(b, h.Seq)
		}
		if len(h.Error) > 0 {
			b = append(b, 2<<3|2)
			b = putLenDelim(b, []byte(h.Error))
		}
		if len(h.Reply) > 0 {
			b = append(b, 3<<3|2)
			b = putLenDelim(b, h.Reply)
		}
		return b
	case enc == "code":
		var b []byte
		b = putUvarint(b, h.Seq)
		b = putLenDelim(b, []byte(h.Error))
		b = putLenDelim(b, h.Reply)
		return b
	case enc == "json":
		m := map[string]interface{}{"i": h.Seq, "e": h.Error}
		if h.Reply == nil {
			m["r"] = nil
		} else {
			m["r"] = base64.StdEncoding.EncodeToString(h.Reply)
		}
		b, _ := json.Marshal(m)
		return b
	}
	panic("unknown encoder " + enc)
}

func pbFields(data []byte, nfields int) (seq uint64, fields [][]byte, err error) {
	fields = make([][]byte, nfields+1)
	for len(data) > 0 {
		var tag uint64
		tag, data, err = getUvarint(data)
		if err != nil {
			return
		}
		num, wt := int(tag>>3), tag&7
		switch {
		case num == 1 && wt == 0:
			seq, data, err = getUvarint(data)
		case num >= 2 && num <= nfields && wt == 2:
			fields[num], data, err = getLenDelim(data)
		default:
			err = fmt.Errorf("refcodec: unexpected field %d wiretype %d", num, wt)
		}
		if err != nil {
			return
		}
	}
	return
}

func b64Field(m map[string]json.RawMessage, key string) ([]byte, error) {
	raw, ok := m[key]
	if !ok || string(raw) == "null" {
		return nil, nil
	}
	var s string
	if err := json.Unmarshal(raw, &s); err != nil {
		return nil, err
	}
	return base64.StdEncoding.DecodeString(s)
}

func jsonKeysOnly(m map[string]json.RawMessage, allowed string) error {
	for k := range m {
		if len(k) != 1 || !containsByte(allowed, k[0]) {
			return fmt.Errorf("refcodec: unexpected json key %q", k)
		}
	}
	return nil
}

func containsByte(s string, b byte) bool {
	for i := 0; i < len(s); i++ {
		if s[i] == b {
			return true
		}
	}
	return false
}

// RefDecodeRequest decodes a request header with the reference decoder.
func RefDecodeRequest(enc string, data []byte) (h ReqHeader, err error) {
	switch {
	case isPB(enc):
		var f [][]byte
		h.Seq, f, err = pbFields(data, 4)
		if err != nil {
			return
		}
		h.Upgrade, h.Method, h.Args = f[2], string(f[3]), f[4]
		return
	case enc == "code":
		h.Seq, data, err = getUvarint(data)
		if err != nil {
			return
		}
		var m []byte
		if h.Upgrade, data, err = getLenDelim(data); err != nil {
			return
		}
		if m, data, err = getLenDelim(data); err != nil {
			return
		}
		h.Method = string(m)
		if h.Args, data, err = getLenDelim(data); err != nil {
			return
		}
		if len(data) != 0 {
			err = errRef
		}
		return
	case enc == "json":
		var m map[string]json.RawMessage
		if err = json.Unmarshal(data, &m); err != nil {
			return
		}
		if err = jsonKeysOnly(m, "iump"); err != nil {
			return
		}
		if raw, ok := m["i"]; ok {
			if err = json.Unmarshal(raw, &h.Seq); err != nil {
				return
			}
		}
		if raw, ok := m["m"]; ok {
			if err = json.Unmarshal(raw, &h.Method); err != nil {
				return
			}
		}
		if h.Upgrade, err = b64Field(m, "u"); err != nil {
			return
		}
		h.Args, err = b64Field(m, "p")
		return
	}
	panic("unknown encoder " + enc)
}

// RefDecodeResponse decodes a response header with the reference decoder.
func RefDecodeResponse(enc string, data []byte) (h ResHeader, err error) {
	switch {
	case isPB(enc):
		var f [][]byte
		h.Seq, f, err = pbFields(data, 3)
		if err != nil {
			return
		}
		h.Error, h.Reply = string(f[2]), f[3]
		return
	case enc == "code":
		h.Seq, data, err = getUvarint(data)
		if err != nil {
			return
		}
		var e []byte
		if e, data, err = getLenDelim(data); err != nil {
			return
		}
		h.Error = string(e)
		if h.Reply, data, err = getLenDelim(data); err != nil {
			return
		}
		if len(data) != 0 {
			err = errRef
		}
		return
	case enc == "json":
		var m map[string]json.RawMessage
		if err = json.Unmarshal(data, &m); err != nil {
			return
		}
		if err = jsonKeysOnly(m, "ier"); err != nil {
			return
		}
		if raw, ok := m["i"]; ok {
			if err = json.Unmarshal(raw, &h.Seq); err != nil {
				return
			}
		}
		if raw, ok := m["e"]; ok {
			if err = json.Unmarshal(raw, &h.Error); err != nil {
				return
			}
		}
		h.Reply, err = b64Field(m, "r")
		return
	}
	panic("unknown encoder " + enc)
}

// Upgrade flag byte, documented layout: NoRequest<<7 | NoResponse<<6 | Heartbeat<<5 | Stream<<3.
const (
	FlagNoRequest  = 0x80
	FlagNoResponse = 0x40
	FlagHeartbeat  = 0x20
	StreamOpen     = 1
	StreamData     = 2
	StreamClose    = 3
)

// RefUpgrade builds the documented flag byte.
func RefUpgrade(noReq, noRes, hb bool, stream byte) byte {
	var b byte
	if noReq {
		b |= FlagNoRequest
	}
	if noRes {
		b |= FlagNoResponse
	}
	if hb {
		b |= FlagHeartbeat
	}
	b |= (stream & 3) << 3
	return b
}
