package kit

import (
	"context"
	"errors"
	"sync"
	"time"

	"github.com/hslam/rpc"
)

// CallTag is passed as the args of every call made through a Client in the routing checks, so
// that the fake transport knows which call it sees and when its caller started it.
type CallTag struct {
	ID    int
	Start time.Time
}

// RTRecord is one operation seen by the fake transport.
type RTRecord struct {
	Addr  string
	Form  string // call | ctx | go | roundtrip | stream | ping
	ID    int    // -1 when the operation carried no tag (Ping, NewStream)
	Start time.Time
	In    time.Time
	Out   time.Time
	Err   error
}

// FakeRT is a scripted rpc.RoundTripper: it records where the Client routes every operation,
// sleeps a scripted latency and refuses addresses scripted down with ErrDial.
type FakeRT struct {
	mu      sync.Mutex
	recs    []RTRecord
	down    map[string]bool
	latency map[string]time.Duration
	pingLat map[string]time.Duration
	failLat map[string]time.Duration
	// StaleProbes makes a slow probe report the health it saw when it STARTED (a refused or
	// accepted connection attempt that takes long to return), so that a stale failure can arrive
	// after a newer success.
	StaleProbes bool
	closed      bool
	closes  int
	// CloseDelay makes Close take this long (a Transport that has connections to shut down).
	CloseDelay time.Duration
}

// NewFakeRT returns a fake transport with every address up and zero latency.
func NewFakeRT() *FakeRT {
	return &FakeRT{down: map[string]bool{}, latency: map[string]time.Duration{}, pingLat: map[string]time.Duration{}, failLat: map[string]time.Duration{}}
}

// SetDown scripts an address down (ErrDial) or up.
func (f *FakeRT) SetDown(addr string, down bool) {
	f.mu.Lock()
	f.down[addr] = down
	f.mu.Unlock()
}

// SetLatency scripts the latency of an address.
func (f *FakeRT) SetLatency(addr string, d time.Duration) {
	f.mu.Lock()
	f.latency[addr] = d
	f.mu.Unlock()
}

// SetPingLatency scripts how long a health probe (Ping) of an address takes, whether it then
// succeeds or is refused.
func (f *FakeRT) SetPingLatency(addr string, d time.Duration) {
	f.mu.Lock()
	f.pingLat[addr] = d
	f.mu.Unlock()
}

// SetFailDelay scripts how long an operation on a down address takes to fail with ErrDial (a
// connection attempt that times out instead of being refused at once).
func (f *FakeRT) SetFailDelay(addr string, d time.Duration) {
	f.mu.Lock()
	f.failLat[addr] = d
	f.mu.Unlock()
}

// Records returns a copy of the records.
func (f *FakeRT) Records() []RTRecord {
	f.mu.Lock()
	defer f.mu.Unlock()
	return append([]RTRecord(nil), f.recs...)
}

// Len returns the number of records.
func (f *FakeRT) Len() int {
	f.mu.Lock()
	defer f.mu.Unlock()
	return len(f.recs)
}

var errFakeClosed = errors.New("fake transport closed")

func (f *FakeRT) do(addr, form string, args interface{}) error {
	in := time.Now()
	rec := RTRecord{Addr: addr, Form: form, ID: -1, In: in}
	if t, ok := args.(*CallTag); ok && t != nil {
		rec.ID, rec.Start = t.ID, t.Start
	}
	f.mu.Lock()
	lat := f.latency[addr]
	plat := f.pingLat[addr]
	f.mu.Unlock()
	f.mu.Lock()
	downAtStart := f.down[addr]
	f.mu.Unlock()
	if form == "ping" && plat > 0 && addr != "" {
		// a slow probe: by default the answer reflects the health at the moment it completes
		time.Sleep(plat)
	}
	f.mu.Lock()
	down := f.down[addr]
	f.mu.Unlock()
	if form == "ping" && f.StaleProbes {
		down = downAtStart
	}
	var err error
	switch {
	case addr == "":
		err = rpc.ErrDial
	case down:
		f.mu.Lock()
		fd := f.failLat[addr]
		f.mu.Unlock()
		if fd > 0 && form != "ping" {
			time.Sleep(fd)
		}
		err = rpc.ErrDial
	default:
		if lat > 0 && form != "ping" {
			time.Sleep(lat)
		}
	}
	rec.Out = time.Now()
	rec.Err = err
	f.mu.Lock()
	f.recs = append(f.recs, rec)
	f.mu.Unlock()
	return err
}

// RoundTrip implements rpc.RoundTripper.
func (f *FakeRT) RoundTrip(addr string, call *rpc.Call) *rpc.Call {
	if call.Done == nil {
		call.Done = make(chan *rpc.Call, 10)
	}
	call.Error = f.do(addr, "roundtrip", call.Args)
	select {
	case call.Done <- call:
	default:
	}
	return call
}

// Go implements rpc.RoundTripper.
func (f *FakeRT) Go(addr, serviceMethod string, args interface{}, reply interface{}, done chan *rpc.Call) *rpc.Call {
	if done == nil {
		done = make(chan *rpc.Call, 10)
	}
	call := &rpc.Call{ServiceMethod: serviceMethod, Args: args, Reply: reply, Done: done}
	call.Error = f.do(addr, "go", args)
	select {
	case done <- call:
	default:
	}
	return call
}

// Call implements rpc.RoundTripper.
func (f *FakeRT) Call(addr, serviceMethod string, args interface{}, reply interface{}) error {
	return f.do(addr, "call", args)
}

// CallWithContext implements rpc.RoundTripper.
func (f *FakeRT) CallWithContext(ctx context.Context, addr string, serviceMethod string, args interface{}, reply interface{}) error {
	return f.do(addr, "ctx", args)
}

type fakeStream struct{}

func (fakeStream) WriteMessage(m interface{}) error            { return nil }
func (fakeStream) ReadMessage(b []byte, m interface{}) error { return rpc.ErrStreamShutdown }
func (fakeStream) Close() error                              { return nil }

// NewStream implements rpc.RoundTripper.
func (f *FakeRT) NewStream(addr, key string) (rpc.Stream, error) {
	if err := f.do(addr, "stream", nil); err != nil {
		return nil, err
	}
	return fakeStream{}, nil
}

// Ping implements rpc.RoundTripper.
func (f *FakeRT) Ping(addr string) error { return f.do(addr, "ping", nil) }

// Close implements rpc.RoundTripper.
func (f *FakeRT) Close() error {
	if f.CloseDelay > 0 {
		time.Sleep(f.CloseDelay)
	}
	f.mu.Lock()
	f.closed = true
	f.closes++
	f.mu.Unlock()
	return nil
}

// ClientForms are the call forms of a Client the routing checks use (no user-level Ping: every
// Ping the fake transport sees is then one of the detector's health probes).
var ClientForms = []string{"call", "ctx", "go", "roundtrip", "stream"}

// ClientDo performs one operation through the Client and returns its error.
func ClientDo(c *rpc.Client, form string, tag *CallTag) error {
	switch form {
	case "call":
		return c.Call("S.Echo", tag, nil)
	case "ctx":
		return c.CallWithContext(context.Background(), "S.Echo", tag, nil)
	case "go":
		call := c.Go("S.Echo", tag, nil, make(chan *rpc.Call, 1))
		<-call.Done
		return call.Error
	case "roundtrip":
		call := c.RoundTrip(&rpc.Call{ServiceMethod: "S.Echo", Args: tag, Done: make(chan *rpc.Call, 1)})
		<-call.Done
		return call.Error
	case "stream":
		_, err := c.NewStream("S.Stream")
		return err
	case "ping":
		return c.Ping()
	}
	return errors.New("harness: unknown form")
}
