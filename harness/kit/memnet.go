package kit

import (
	"crypto/tls"
	"errors"
	"fmt"
	"io"
	"net"
	"sync"
	"sync/atomic"
	"time"

	"github.com/hslam/netpoll"
	"github.com/hslam/socket"
)

// Net is an in-memory network implementing socket.Socket: listeners and dialers whose
// connections are duplex byte pipes wrapped by the library's own length-prefix framing
// (socket.NewMessages). The harness owns fragmentation, cuts, kills and counts endpoints.
type Net struct {
	mu        sync.Mutex
	listeners map[string]*MemListener
	conns     []*MemConn // client endpoints in dial order
	Chunk     int        // max bytes returned by one Read (0 = unlimited)
	DialHook  func(addr string, openBefore int)
	dials     map[string]int
	Record    bool // record the byte transcript of every connection
	// CutPlan, when set, is consulted for every new connection.
	CutPlan func(c *MemConn)
}

// NewNet returns an empty network.
func NewNet() *Net {
	return &Net{listeners: map[string]*MemListener{}, dials: map[string]int{}}
}

// NewSocket has the signature of rpc.Options.NewSocket.
func (n *Net) NewSocket(*tls.Config) socket.Socket { return &memSocket{n: n} }

type memSocket struct{ n *Net }

func (s *memSocket) Scheme() string { return "mem" }

// ErrRefused is returned by Dial when nobody listens.
var ErrRefused = errors.New("mem: connection refused")

// ErrCutReset is the reset-like error a cut can deliver.
var ErrCutReset = errors.New("mem: connection reset by peer")

type half struct {
	mu        sync.Mutex
	cond      *sync.Cond
	buf       []byte
	wclosed   bool  // writer closed: reader sees EOF after draining
	rclosed   bool  // reader gone: writes fail
	cutAfter  int64 // -1: none; otherwise the reader receives exactly this many bytes, then cutErr
	cutErr    error
	delivered int64
	written   int64
	record    bool
	log       []byte
	onCut     func()
	cutDone   bool
}

func newHalf() *half {
	h := &half{cutAfter: -1}
	h.cond = sync.NewCond(&h.mu)
	return h
}

func (h *half) write(p []byte) (int, error) {
	h.mu.Lock()
	defer h.mu.Unlock()
	if h.wclosed {
		return 0, io.ErrClosedPipe
	}
	if h.rclosed || h.cutDone {
		return 0, errors.New("write: broken pipe")
	}
	h.buf = append(h.buf, p...)
	h.written += int64(len(p))
	if h.record {
		h.log = append(h.log, p...)
	}
	h.cond.Broadcast()
	return len(p), nil
}

func (h *half) read(p []byte, chunk int) (int, error) {
	h.mu.Lock()
	for {
		if h.rclosed {
			h.mu.Unlock()
			return 0, errors.New("use of closed network connection")
		}
		if h.cutAfter >= 0 && h.delivered >= h.cutAfter {
			err := h.cutErr
			fire := !h.cutDone
			h.cutDone = true
			on := h.onCut
			h.mu.Unlock()
			if fire && on != nil {
				on()
			}
			return 0, err
		}
		if len(h.buf) > 0 {
			n := len(p)
			if n > len(h.buf) {
				n = len(h.buf)
			}
			if chunk > 0 && n > chunk {
				n = chunk
			}
			if h.cutAfter >= 0 && int64(n) > h.cutAfter-h.delivered {
				n = int(h.cutAfter - h.delivered)
			}
			copy(p, h.buf[:n])
			h.buf = h.buf[n:]
			h.delivered += int64(n)
			h.mu.Unlock()
			return n, nil
		}
		if h.wclosed {
			h.mu.Unlock()
			return 0, io.EOF
		}
		h.cond.Wait()
	}
}

// MemConn is one endpoint of an in-memory connection.
type MemConn struct {
	net      *Net
	Addr     string
	Client   bool
	ID       int
	r, w     *half
	peer     *MemConn
	closed   int32
	ClosedAt time.Time
	DialedAt time.Time
}

func (c *MemConn) Read(p []byte) (int, error)  { return c.r.read(p, c.net.Chunk) }
func (c *MemConn) Write(p []byte) (int, error) { return c.w.write(p) }

// Close closes this endpoint: the peer sees EOF after the bytes already written.
func (c *MemConn) Close() error {
	if !atomic.CompareAndSwapInt32(&c.closed, 0, 1) {
		return nil
	}
	c.ClosedAt = time.Now()
	c.w.mu.Lock()
	c.w.wclosed = true
	c.w.cond.Broadcast()
	c.w.mu.Unlock()
	c.r.mu.Lock()
	c.r.rclosed = true
	c.r.cond.Broadcast()
	c.r.mu.Unlock()
	return nil
}

// IsClosed reports whether this endpoint was closed by its owner.
func (c *MemConn) IsClosed() bool { return atomic.LoadInt32(&c.closed) == 1 }

// Sever ends the connection abruptly in both directions (both endpoints' reads see err once
// buffered data is consumed; writes fail).
func (c *MemConn) Sever(err error) {
	for _, h := range []*half{c.r, c.w} {
		h.mu.Lock()
		if h.cutAfter < 0 {
			h.cutAfter = h.delivered + int64(len(h.buf))
			h.cutErr = err
		}
		h.cond.Broadcast()
		h.mu.Unlock()
	}
}

// CutInbound makes this endpoint's reads end with err after exactly k more... total bytes k;
// when the cut fires the whole connection is severed (the other direction ends too).
func (c *MemConn) CutInbound(k int64, err error) {
	c.r.mu.Lock()
	c.r.cutAfter = k
	c.r.cutErr = err
	c.r.onCut = func() {
		// the other direction dies with the connection
		c.w.mu.Lock()
		if c.w.cutAfter < 0 {
			c.w.cutAfter = c.w.delivered
			c.w.cutErr = err
		}
		c.w.cond.Broadcast()
		c.w.mu.Unlock()
	}
	c.r.cond.Broadcast()
	c.r.mu.Unlock()
}

// Transcript returns the bytes written towards this endpoint so far (Net.Record must be set).
func (c *MemConn) Transcript() []byte {
	c.r.mu.Lock()
	defer c.r.mu.Unlock()
	return append([]byte(nil), c.r.log...)
}

// Delivered returns how many inbound bytes this endpoint has read.
func (c *MemConn) Delivered() int64 {
	c.r.mu.Lock()
	defer c.r.mu.Unlock()
	return c.r.delivered
}

// Peer returns the other endpoint.
func (c *MemConn) Peer() *MemConn { return c.peer }

type memAddr string

func (a memAddr) Network() string { return "mem" }
func (a memAddr) String() string  { return string(a) }

func (c *MemConn) LocalAddr() net.Addr                { return memAddr(c.Addr) }
func (c *MemConn) RemoteAddr() net.Addr               { return memAddr(c.Addr) }
func (c *MemConn) SetDeadline(t time.Time) error      { return nil }
func (c *MemConn) SetReadDeadline(t time.Time) error  { return nil }
func (c *MemConn) SetWriteDeadline(t time.Time) error { return nil }

// Messages implements socket.Conn with the library's own framing.
func (c *MemConn) Messages() socket.Messages { return socket.NewMessages(c, false) }

// Connection implements socket.Conn.
func (c *MemConn) Connection() net.Conn { return c }

func (s *memSocket) Dial(address string) (socket.Conn, error) {
	n := s.n
	n.mu.Lock()
	l := n.listeners[address]
	open := 0
	for _, c := range n.conns {
		if c.Addr == address && !c.IsClosed() {
			open++
		}
	}
	hook := n.DialHook
	n.mu.Unlock()
	if l == nil {
		return nil, ErrRefused
	}
	if hook != nil {
		hook(address, open)
	}
	a, b := newHalf(), newHalf()
	a.record, b.record = n.Record, n.Record
	n.mu.Lock()
	id := len(n.conns)
	cl := &MemConn{net: n, Addr: address, Client: true, ID: id, r: a, w: b, DialedAt: time.Now()}
	sv := &MemConn{net: n, Addr: address, Client: false, ID: id, r: b, w: a}
	cl.peer, sv.peer = sv, cl
	n.conns = append(n.conns, cl)
	n.dials[address]++
	plan := n.CutPlan
	n.mu.Unlock()
	if plan != nil {
		plan(cl)
	}
	if !l.deliver(sv) {
		// refused: neither end exists for the accounting
		cl.Close()
		sv.Close()
		return nil, ErrRefused
	}
	return cl, nil
}

// MemListener is an in-memory listener.
type MemListener struct {
	n      *Net
	addr   string
	mu     sync.Mutex
	ch     chan *MemConn
	done   chan struct{} // closed by Close; ch itself is never closed (a Dial may be delivering)
	closed bool
	conns  []*MemConn
}

func (l *MemListener) deliver(c *MemConn) bool {
	l.mu.Lock()
	defer l.mu.Unlock()
	if l.closed {
		return false
	}
	// the send happens under the lock that Close takes: no connection can slip into the backlog
	// after Close has emptied it
	select {
	case l.ch <- c:
		l.conns = append(l.conns, c)
		return true
	default:
		return false // backlog full
	}
}

func (s *memSocket) Listen(address string) (socket.Listener, error) {
	n := s.n
	n.mu.Lock()
	defer n.mu.Unlock()
	if _, ok := n.listeners[address]; ok {
		return nil, fmt.Errorf("mem: address %s already in use", address)
	}
	l := &MemListener{n: n, addr: address, ch: make(chan *MemConn, 64), done: make(chan struct{})}
	n.listeners[address] = l
	return l, nil
}

// Accept implements socket.Listener.
func (l *MemListener) Accept() (socket.Conn, error) {
	select {
	case c := <-l.ch:
		return c, nil
	default:
	}
	select {
	case c := <-l.ch:
		return c, nil
	case <-l.done:
		return nil, errors.New("mem: listener closed")
	}
}

// Close implements socket.Listener.
func (l *MemListener) Close() error {
	l.mu.Lock()
	if l.closed {
		l.mu.Unlock()
		return nil
	}
	l.closed = true
	close(l.done)
	// connections still in the backlog are reset, as a kernel does when the listening socket goes
	for {
		select {
		case c := <-l.ch:
			c.Close()
			continue
		default:
		}
		break
	}
	l.mu.Unlock()
	l.n.mu.Lock()
	if l.n.listeners[l.addr] == l {
		delete(l.n.listeners, l.addr)
	}
	l.n.mu.Unlock()
	return nil
}

// Addr implements socket.Listener.
func (l *MemListener) Addr() net.Addr { return memAddr(l.addr) }

var errNoPoll = errors.New("mem: poll mode is not supported by the in-memory network")

func (l *MemListener) Serve(handler netpoll.Handler) error { return errNoPoll }
func (l *MemListener) ServeData(opened func(net.Conn) error, serve func(req []byte) (res []byte)) error {
	return errNoPoll
}
func (l *MemListener) ServeConn(opened func(net.Conn) (socket.Context, error), serve func(socket.Context) error) error {
	return errNoPoll
}
func (l *MemListener) ServeMessages(opened func(socket.Messages) (socket.Context, error), serve func(socket.Context) error) error {
	return errNoPoll
}

// Listening reports whether somebody listens on addr.
func (n *Net) Listening(addr string) bool {
	n.mu.Lock()
	defer n.mu.Unlock()
	return n.listeners[addr] != nil
}

// WaitListening waits for a listener on addr.
func (n *Net) WaitListening(addr string, d time.Duration) bool {
	deadline := time.Now().Add(d)
	for !n.Listening(addr) {
		if time.Now().After(deadline) {
			return false
		}
		time.Sleep(50 * time.Microsecond)
	}
	return true
}

// SeverServerSide abruptly ends every connection accepted on addr (a crashed server process).
func (n *Net) SeverServerSide(addr string, err error) int {
	n.mu.Lock()
	var cs []*MemConn
	for _, c := range n.conns {
		if c.Addr == addr && !c.IsClosed() {
			cs = append(cs, c)
		}
	}
	n.mu.Unlock()
	for _, c := range cs {
		c.peer.Close()
	}
	return len(cs)
}

// ClientConns returns the client endpoints dialed so far (all addresses when addr is empty).
func (n *Net) ClientConns(addr string) []*MemConn {
	n.mu.Lock()
	defer n.mu.Unlock()
	var out []*MemConn
	for _, c := range n.conns {
		if addr == "" || c.Addr == addr {
			out = append(out, c)
		}
	}
	return out
}

// OpenClient counts client endpoints to addr that were dialed and not yet closed by the client.
func (n *Net) OpenClient(addr string) int {
	k := 0
	for _, c := range n.ClientConns(addr) {
		if !c.IsClosed() {
			k++
		}
	}
	return k
}

// OpenEndpoints counts all endpoints (both sides) not yet closed by their owner.
func (n *Net) OpenEndpoints() (client, server int) {
	for _, c := range n.ClientConns("") {
		if !c.IsClosed() {
			client++
		}
		if !c.peer.IsClosed() {
			server++
		}
	}
	return
}

// Dials returns how many connections were dialed to addr.
func (n *Net) Dials(addr string) int {
	n.mu.Lock()
	defer n.mu.Unlock()
	return n.dials[addr]
}

// CutFired reports whether a planned cut of this endpoint's inbound direction has been delivered.
func (c *MemConn) CutFired() bool {
	c.r.mu.Lock()
	defer c.r.mu.Unlock()
	return c.r.cutDone
}

// ParseFrames splits a byte transcript into the complete length-prefixed frames it contains
// (the framing of socket.NewMessages: uvarint length, then payload).
func ParseFrames(b []byte) (frames [][]byte) {
	for len(b) > 0 {
		var l uint64
		var s uint
		i := 0
		for {
			if i >= len(b) || i > 9 {
				return
			}
			c := b[i]
			i++
			if c < 0x80 {
				l |= uint64(c) << s
				break
			}
			l |= uint64(c&0x7f) << s
			s += 7
		}
		if uint64(len(b)-i) < l {
			return
		}
		frames = append(frames, b[i:i+int(l)])
		b = b[i+int(l):]
	}
	return
}
