package kit

import (
	"fmt"
	"os"
	"strconv"
	"strings"
)

// ParseFuzzFile reads a native Go fuzz corpus file ("go test fuzz v1") and returns its
// arguments as byte slices (byte/uint8 arguments become 1-byte slices).
func ParseFuzzFile(path string) ([][]byte, error) {
	b, err := os.ReadFile(path)
	if err != nil {
		return nil, err
	}
	lines := strings.Split(strings.TrimSpace(string(b)), "\n")
	if len(lines) < 1 || !strings.HasPrefix(lines[0], "go test fuzz v1") {
		return nil, fmt.Errorf("not a go fuzz corpus file")
	}
	var out [][]byte
	for _, l := range lines[1:] {
		l = strings.TrimSpace(l)
		switch {
		case strings.HasPrefix(l, "[]byte(") && strings.HasSuffix(l, ")"):
			s, err := strconv.Unquote(l[len("[]byte(") : len(l)-1])
			if err != nil {
				return nil, err
			}
			out = append(out, []byte(s))
		case (strings.HasPrefix(l, "byte(") || strings.HasPrefix(l, "uint8(")) && strings.HasSuffix(l, ")"):
			inner := l[strings.Index(l, "(")+1 : len(l)-1]
			if strings.HasPrefix(inner, "'") {
				r, _, _, err := strconv.UnquoteChar(inner[1:len(inner)-1], '\'')
				if err != nil {
					return nil, err
				}
				out = append(out, []byte{byte(r)})
			} else {
				v, err := strconv.ParseUint(inner, 0, 8)
				if err != nil {
					return nil, err
				}
				out = append(out, []byte{byte(v)})
			}
		default:
			return nil, fmt.Errorf("unsupported corpus line %q", l)
		}
	}
	return out, nil
}
