// Package kit holds the shared building blocks of the verification harness.
package kit

import (
	_ "github.com/hslam/rpc"
	_ "pgregory.net/rapid"
)
