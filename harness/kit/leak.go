package kit

import (
	"regexp"
	"runtime"
	"strconv"
	"strings"
	"time"
)

// Goroutine is one entry of a goroutine dump.
type Goroutine struct {
	ID    int
	Stack string
}

var goroutineHdr = regexp.MustCompile(`^goroutine (\d+) \[`)

// LibraryGoroutines returns the goroutines that were started by code of github.com/hslam/...
// (their "created by" frame is inside the library or its dependencies), i.e. background
// goroutines the library owns - not harness goroutines that merely call into it.
func LibraryGoroutines() []Goroutine {
	buf := make([]byte, 1<<20)
	for {
		n := runtime.Stack(buf, true)
		if n < len(buf) {
			buf = buf[:n]
			break
		}
		buf = make([]byte, 2*len(buf))
	}
	var out []Goroutine
	for _, blk := range strings.Split(string(buf), "\n\n") {
		m := goroutineHdr.FindStringSubmatch(blk)
		if m == nil {
			continue
		}
		i := strings.LastIndex(blk, "created by ")
		if i < 0 || !strings.HasPrefix(blk[i+len("created by "):], "github.com/hslam/") {
			continue
		}
		id, _ := strconv.Atoi(m[1])
		out = append(out, Goroutine{ID: id, Stack: blk})
	}
	return out
}

// NewLibraryGoroutines waits (bounded) until no library goroutine exists that is not in the
// before set; it returns the leftovers.
func NewLibraryGoroutines(before []Goroutine, d time.Duration) []Goroutine {
	known := map[int]bool{}
	for _, g := range before {
		known[g.ID] = true
	}
	deadline := time.Now().Add(d)
	for {
		var left []Goroutine
		for _, g := range LibraryGoroutines() {
			if !known[g.ID] {
				left = append(left, g)
			}
		}
		if len(left) == 0 || time.Now().After(deadline) {
			return left
		}
		time.Sleep(time.Millisecond)
	}
}

// TopFrames renders the first frames of a goroutine for reports.
func (g Goroutine) TopFrames(n int) string {
	lines := strings.Split(g.Stack, "\n")
	var fr []string
	for i := 1; i < len(lines) && len(fr) < n; i += 2 {
		fr = append(fr, strings.TrimSpace(lines[i]))
	}
	if i := strings.LastIndex(g.Stack, "created by "); i >= 0 {
		c := g.Stack[i:]
		if j := strings.Index(c, "\n"); j > 0 {
			c = c[:j]
		}
		fr = append(fr, c)
	}
	return strings.Join(fr, " <- ")
}
