package kit

import (
	"errors"
	"io"
	"sync"
	"time"
)

// FrameLink is an in-memory pair of socket.Messages endpoints whose delivery the harness owns.
// It models only what a TCP connection can do: delay and batch frames, fail a write, end the
// stream - never reorder or drop frames inside the stream. It deliberately does not implement
// socket.BufferedOutput, so write errors are reported synchronously.
type FrameLink struct {
	C *FrameEnd // client side endpoint (given to the library's client codec or a scripted client)
	S *FrameEnd // server side endpoint
}

// ErrLinkReset is the reset-like read error the link can inject.
var ErrLinkReset = errors.New("read: connection reset (injected)")

// ErrLinkWrite is the default injected write error.
var ErrLinkWrite = errors.New("write: broken pipe (injected)")

// GatedWrite is a WriteMessage call parked at the write gate.
type GatedWrite struct {
	Data   []byte
	decide chan error
}

// Succeed lets the write go through.
func (g *GatedWrite) Succeed() { g.decide <- nil }

// Fail makes the write return err; the frame is not delivered.
func (g *GatedWrite) Fail(err error) { g.decide <- err }

// FrameEnd is one endpoint of a FrameLink.
type FrameEnd struct {
	name string
	mu   sync.Mutex
	cond *sync.Cond
	// inbound
	queue    [][]byte // frames written by the peer, in order
	released int      // number of queued frames the reader may consume
	hold     bool     // when set, frames are released only by Release
	readErr  error    // once set and all released frames are consumed, ReadMessage returns it
	hardErr  bool     // readErr is returned even if frames remain
	closed   bool     // local Close called
	waiting  int      // readers currently blocked in ReadMessage
	reads    int      // completed ReadMessage calls
	entered  int      // ReadMessage calls that found nothing and blocked (monotone)
	readEnds int      // ReadMessage calls that returned an error
	// outbound
	peer      *FrameEnd
	gate      bool
	Writes    chan *GatedWrite // gated writes appear here
	wrote     int              // frames accepted from this end
	wmu       sync.Mutex
	failWrite error // when set every write fails with it (ungated)
	tap       func(data []byte)
	closeHook func()
}

// NewFrameLink makes a connected pair.
func NewFrameLink() *FrameLink {
	c := &FrameEnd{name: "client"}
	s := &FrameEnd{name: "server"}
	c.cond = sync.NewCond(&c.mu)
	s.cond = sync.NewCond(&s.mu)
	c.peer, s.peer = s, c
	return &FrameLink{C: c, S: s}
}

// SetHold makes inbound frames wait for Release.
func (e *FrameEnd) SetHold(hold bool) {
	e.mu.Lock()
	e.hold = hold
	if !hold {
		e.released = len(e.queue)
	}
	e.mu.Unlock()
	e.cond.Broadcast()
}

// SetGate parks every WriteMessage of this end at the write gate (channel Writes).
func (e *FrameEnd) SetGate(buf int) {
	e.Writes = make(chan *GatedWrite, buf)
	e.gate = true
}

// SetTap registers a function that sees every frame accepted from this end.
func (e *FrameEnd) SetTap(f func(data []byte)) { e.tap = f }

// SetFailWrites makes every later write from this end fail with err (nil restores).
func (e *FrameEnd) SetFailWrites(err error) {
	e.wmu.Lock()
	e.failWrite = err
	e.wmu.Unlock()
}

// Release lets the reader of this end consume n more queued frames (n<0: all queued now).
// It returns how many frames were newly released.
func (e *FrameEnd) Release(n int) int {
	e.mu.Lock()
	avail := len(e.queue) - e.released
	if n < 0 || n > avail {
		n = avail
	}
	e.released += n
	e.mu.Unlock()
	e.cond.Broadcast()
	return n
}

// Held returns the number of frames queued but not yet released.
func (e *FrameEnd) Held() int {
	e.mu.Lock()
	defer e.mu.Unlock()
	return len(e.queue) - e.released
}

// Unread returns the number of released frames not yet consumed.
func (e *FrameEnd) Unread() int {
	e.mu.Lock()
	defer e.mu.Unlock()
	return e.released
}

// Reads returns the number of completed ReadMessage calls that returned a frame.
func (e *FrameEnd) Reads() int {
	e.mu.Lock()
	defer e.mu.Unlock()
	return e.reads
}

// Wrote returns the number of frames accepted from this end.
func (e *FrameEnd) Wrote() int {
	e.wmu.Lock()
	defer e.wmu.Unlock()
	return e.wrote
}

// InjectReadError ends the inbound direction: after the released frames have been consumed
// (or at once when hard is set) ReadMessage returns err. io.EOF models an orderly close.
func (e *FrameEnd) InjectReadError(err error, hard bool) {
	e.mu.Lock()
	if e.readErr == nil {
		e.readErr = err
		e.hardErr = hard
	}
	e.mu.Unlock()
	e.cond.Broadcast()
}

// WaitReaderIdle waits until a reader of this end is blocked with nothing left to consume
// (every released frame has been read and, in direct-IO modes, fully processed).
func (e *FrameEnd) WaitReaderIdle(d time.Duration) bool {
	deadline := time.Now().Add(d)
	for {
		e.mu.Lock()
		ok := (e.waiting > 0 && e.released == 0) || e.closed
		e.mu.Unlock()
		if ok {
			return true
		}
		if time.Now().After(deadline) {
			return false
		}
		time.Sleep(50 * time.Microsecond)
	}
}

// WaitReadEnded waits until a ReadMessage call of this end has returned an error.
func (e *FrameEnd) WaitReadEnded(d time.Duration) bool {
	deadline := time.Now().Add(d)
	for {
		e.mu.Lock()
		ok := e.readEnds > 0
		e.mu.Unlock()
		if ok {
			return true
		}
		if time.Now().After(deadline) {
			return false
		}
		time.Sleep(50 * time.Microsecond)
	}
}

// WaitQueued waits until at least n frames have been written towards this end in total.
func (e *FrameEnd) WaitQueued(n int, d time.Duration) bool {
	deadline := time.Now().Add(d)
	for {
		if e.peer.Wrote() >= n {
			return true
		}
		if time.Now().After(deadline) {
			return false
		}
		time.Sleep(50 * time.Microsecond)
	}
}

// ReadMessage implements socket.Messages.
func (e *FrameEnd) ReadMessage(buf []byte) ([]byte, error) {
	e.mu.Lock()
	defer e.mu.Unlock()
	blocked := false
	for {
		if e.closed {
			e.readEnds++
			return nil, io.EOF
		}
		if e.readErr != nil {
			if e.hardErr {
				e.readEnds++
				return nil, e.readErr
			}
			// data precedes the end of a TCP stream: frames still held are delivered first
			e.released = len(e.queue)
			if e.released == 0 {
				e.readEnds++
				return nil, e.readErr
			}
		}
		if e.released > 0 {
			f := e.queue[0]
			e.queue = e.queue[1:]
			e.released--
			e.reads++
			var p []byte
			if cap(buf) >= len(f) {
				p = buf[:len(f)]
			} else {
				p = make([]byte, len(f))
			}
			copy(p, f)
			return p, nil
		}
		if !blocked {
			blocked = true
			e.entered++
		}
		e.waiting++
		e.cond.Wait()
		e.waiting--
	}
}

// WriteMessage implements socket.Messages.
func (e *FrameEnd) WriteMessage(b []byte) error {
	data := append([]byte(nil), b...)
	if e.gate {
		g := &GatedWrite{Data: data, decide: make(chan error, 1)}
		e.Writes <- g
		if err := <-g.decide; err != nil {
			return err
		}
	}
	e.wmu.Lock()
	defer e.wmu.Unlock()
	if e.failWrite != nil {
		return e.failWrite
	}
	e.mu.Lock()
	closed := e.closed
	e.mu.Unlock()
	if closed {
		return io.EOF
	}
	p := e.peer
	p.mu.Lock()
	if p.closed || p.readErr != nil {
		p.mu.Unlock()
		return io.EOF
	}
	p.queue = append(p.queue, data)
	if !p.hold {
		p.released = len(p.queue)
	}
	p.mu.Unlock()
	e.wrote++
	if e.tap != nil {
		e.tap(data)
	}
	p.cond.Broadcast()
	return nil
}

// Close implements socket.Messages: local reads end with io.EOF, the peer sees an orderly
// close after the frames already written.
func (e *FrameEnd) Close() error {
	e.mu.Lock()
	already := e.closed
	e.closed = true
	hook := e.closeHook
	e.mu.Unlock()
	e.cond.Broadcast()
	if !already {
		e.peer.InjectReadError(io.EOF, false)
		if hook != nil {
			hook()
		}
	}
	return nil
}

// Closed reports whether Close was called on this end.
func (e *FrameEnd) Closed() bool {
	e.mu.Lock()
	defer e.mu.Unlock()
	return e.closed
}
