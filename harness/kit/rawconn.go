package kit

import (
	"encoding/binary"
	"errors"
	"io"
	"net"
	"sync"
	"syscall"
	"time"
	"unsafe"
)

// Messages is the subset of socket.Messages the scripted peers need.
type Messages interface {
	ReadMessage(buf []byte) ([]byte, error)
	WriteMessage([]byte) error
	Close() error
}

// RawConn is a scripted peer's view of a real (unix/tcp) connection: it speaks the length-prefix
// framing itself (uvarint length, payload), so that several frames can be put into one write and
// the connection can be dropped at any point.
type RawConn struct {
	c    net.Conn
	rmu  sync.Mutex
	wmu  sync.Mutex
	rbuf []byte
}

// DialRaw connects to a unix socket path or a tcp address.
func DialRaw(network, addr string) (*RawConn, error) {
	c, err := net.DialTimeout(network, addr, 5*time.Second)
	if err != nil {
		return nil, err
	}
	return &RawConn{c: c}, nil
}

func frame(b []byte) []byte {
	out := binary.AppendUvarint(make([]byte, 0, len(b)+10), uint64(len(b)))
	return append(out, b...)
}

// WriteMessage writes one frame.
func (r *RawConn) WriteMessage(b []byte) error { return r.WriteFrames([][]byte{b}) }

// WriteFrames writes several frames with a single write call (one arrival batch).
func (r *RawConn) WriteFrames(frames [][]byte) error {
	var buf []byte
	for _, f := range frames {
		buf = append(buf, frame(f)...)
	}
	r.wmu.Lock()
	defer r.wmu.Unlock()
	r.c.SetWriteDeadline(time.Now().Add(20 * time.Second))
	_, err := r.c.Write(buf)
	return err
}

// ReadMessage reads one frame.
func (r *RawConn) ReadMessage(buf []byte) ([]byte, error) {
	r.rmu.Lock()
	defer r.rmu.Unlock()
	tmp := make([]byte, 65536)
	for {
		if l, n := binary.Uvarint(r.rbuf); n > 0 && uint64(len(r.rbuf)-n) >= l {
			p := append([]byte(nil), r.rbuf[n:n+int(l)]...)
			r.rbuf = r.rbuf[n+int(l):]
			return p, nil
		} else if n < 0 {
			return nil, errors.New("rawconn: bad length prefix")
		}
		k, err := r.c.Read(tmp)
		if k > 0 {
			r.rbuf = append(r.rbuf, tmp[:k]...)
			continue
		}
		if err != nil {
			if err != io.EOF {
				return nil, io.EOF
			}
			return nil, err
		}
	}
}

// Close closes the connection.
func (r *RawConn) Close() error { return r.c.Close() }

// Queues reports the bytes this end has written that the peer has not read yet, and the bytes
// waiting to be read by this end (development aid for stall diagnosis; -1 when unavailable).
func (r *RawConn) Queues() (outq, inq int) {
	outq, inq = -1, -1
	sc, ok := r.c.(syscall.Conn)
	if !ok {
		return
	}
	raw, err := sc.SyscallConn()
	if err != nil {
		return
	}
	raw.Control(func(fd uintptr) {
		var v int32
		if _, _, e := syscall.Syscall(syscall.SYS_IOCTL, fd, 0x5411 /* TIOCOUTQ */, uintptr(unsafe.Pointer(&v))); e == 0 {
			outq = int(v)
		}
		if _, _, e := syscall.Syscall(syscall.SYS_IOCTL, fd, 0x541B /* FIONREAD */, uintptr(unsafe.Pointer(&v))); e == 0 {
			inq = int(v)
		}
	})
	return
}
