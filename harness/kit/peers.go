package kit

import (
	"sync"
	"time"

	"github.com/hslam/rpc"
)

// BytesCodec returns the library's zero-copy bytes body codec.
func BytesCodec() rpc.Codec { return &rpc.BYTESCodec{} }

// ServeLink serves the server end of a frame link with a real Server; returns a channel
// closed when ServeCodec returns.
func ServeLink(srv *rpc.Server, link *FrameLink, enc string, directIO bool) chan struct{} {
	return ServeLinkWith(srv, link, enc, directIO, BytesCodec())
}

// ServeLinkWith is ServeLink with a chosen body codec.
func ServeLinkWith(srv *rpc.Server, link *FrameLink, enc string, directIO bool, body rpc.Codec) chan struct{} {
	return ServeLinkBuf(srv, link, enc, directIO, body, 0)
}

// ServeLinkBuf is ServeLinkWith with a buffer size for the server codec.
func ServeLinkBuf(srv *rpc.Server, link *FrameLink, enc string, directIO bool, body rpc.Codec, bufferSize int) chan struct{} {
	done := make(chan struct{})
	codec := rpc.NewServerCodec(body, HeaderEncoder(enc), link.S, directIO, bufferSize)
	go func() {
		srv.ServeCodec(codec)
		close(done)
	}()
	return done
}

// NewLinkConn makes a real client Conn over the client end of a frame link.
func NewLinkConn(link *FrameLink, enc string) *rpc.Conn {
	return rpc.NewConnWithCodec(rpc.NewClientCodec(BytesCodec(), HeaderEncoder(enc), link.C, 0))
}

// SeenResponse is a response frame observed by a scripted client.
type SeenResponse struct {
	ResHeader
	Raw     []byte
	DecErr  string
	Arrival int64
}

// ScriptClient is a scripted client peer: it writes request frames built with the reference
// encoder and records the response frames.
type ScriptClient struct {
	Enc  string
	End  *FrameEnd // set when the peer sits on a frame link
	io   Messages
	mu   sync.Mutex
	resp []SeenResponse
	eof  bool
	err  error
	tick func() int64
}

// NewScriptClient starts the response recorder on the client end of the link.
func NewScriptClient(link *FrameLink, enc string, tick func() int64) *ScriptClient {
	c := &ScriptClient{Enc: enc, End: link.C, io: link.C, tick: tick}
	go c.readLoop()
	return c
}

// NewScriptClientOn starts the response recorder on any message transport (for instance a
// RawConn to a real unix-socket server).
func NewScriptClientOn(m Messages, enc string, tick func() int64) *ScriptClient {
	c := &ScriptClient{Enc: enc, io: m, tick: tick}
	go c.readLoop()
	return c
}

// Close closes the underlying transport.
func (c *ScriptClient) Close() error { return c.io.Close() }

func (c *ScriptClient) readLoop() {
	for {
		data, err := c.io.ReadMessage(nil)
		if err != nil {
			c.mu.Lock()
			c.eof = true
			c.err = err
			c.mu.Unlock()
			return
		}
		r := SeenResponse{Raw: data}
		h, derr := RefDecodeResponse(c.Enc, data)
		if derr != nil {
			r.DecErr = derr.Error()
		}
		r.ResHeader = h
		if c.tick != nil {
			r.Arrival = c.tick()
		}
		c.mu.Lock()
		c.resp = append(c.resp, r)
		c.mu.Unlock()
	}
}

// Send writes one request frame.
func (c *ScriptClient) Send(h ReqHeader) error {
	return c.io.WriteMessage(RefEncodeRequest(c.Enc, h))
}

// SendBatch writes several requests as one arrival batch (one write call) where the transport
// supports it, otherwise one after the other.
func (c *ScriptClient) SendBatch(hs []ReqHeader) error {
	if rc, ok := c.io.(*RawConn); ok {
		var frames [][]byte
		for _, h := range hs {
			frames = append(frames, RefEncodeRequest(c.Enc, h))
		}
		return rc.WriteFrames(frames)
	}
	for _, h := range hs {
		if err := c.Send(h); err != nil {
			return err
		}
	}
	return nil
}

// SendFrames writes raw frames as one arrival batch where the transport supports it.
func (c *ScriptClient) SendFrames(frames [][]byte) error {
	if rc, ok := c.io.(*RawConn); ok {
		return rc.WriteFrames(frames)
	}
	for _, f := range frames {
		if err := c.io.WriteMessage(f); err != nil {
			return err
		}
	}
	return nil
}

// SendRaw writes arbitrary bytes as one frame.
func (c *ScriptClient) SendRaw(b []byte) error { return c.io.WriteMessage(b) }

// Responses returns a copy of the responses seen so far.
func (c *ScriptClient) Responses() []SeenResponse {
	c.mu.Lock()
	defer c.mu.Unlock()
	return append([]SeenResponse(nil), c.resp...)
}

// Ended reports whether the server closed the connection.
func (c *ScriptClient) Ended() bool {
	c.mu.Lock()
	defer c.mu.Unlock()
	return c.eof
}

// WaitResponses waits for n responses (or the end of the connection).
func (c *ScriptClient) WaitResponses(n int, d time.Duration) bool {
	deadline := time.Now().Add(d)
	for {
		c.mu.Lock()
		got, eof := len(c.resp), c.eof
		c.mu.Unlock()
		if got >= n {
			return true
		}
		if eof || time.Now().After(deadline) {
			return false
		}
		time.Sleep(50 * time.Microsecond)
	}
}

// WaitEnded waits for the server to close the connection.
func (c *ScriptClient) WaitEnded(d time.Duration) bool {
	deadline := time.Now().Add(d)
	for !c.Ended() {
		if time.Now().After(deadline) {
			return false
		}
		time.Sleep(50 * time.Microsecond)
	}
	return true
}

// SeenRequest is a request frame observed by a scripted server.
type SeenRequest struct {
	ReqHeader
	Raw    []byte
	DecErr string
}

// ScriptServer is a scripted server peer: it records request frames and answers as told.
type ScriptServer struct {
	Enc string
	End *FrameEnd
	mu  sync.Mutex
	req []SeenRequest
	eof bool
}

// NewScriptServer starts the request recorder on the server end of the link.
func NewScriptServer(link *FrameLink, enc string) *ScriptServer {
	s := &ScriptServer{Enc: enc, End: link.S}
	go s.readLoop()
	return s
}

func (s *ScriptServer) readLoop() {
	for {
		data, err := s.End.ReadMessage(nil)
		if err != nil {
			s.mu.Lock()
			s.eof = true
			s.mu.Unlock()
			return
		}
		r := SeenRequest{Raw: data}
		h, derr := RefDecodeRequest(s.Enc, data)
		if derr != nil {
			r.DecErr = derr.Error()
		}
		r.ReqHeader = h
		s.mu.Lock()
		s.req = append(s.req, r)
		s.mu.Unlock()
	}
}

// Requests returns a copy of the requests seen so far.
func (s *ScriptServer) Requests() []SeenRequest {
	s.mu.Lock()
	defer s.mu.Unlock()
	return append([]SeenRequest(nil), s.req...)
}

// WaitRequests waits until n request frames have arrived.
func (s *ScriptServer) WaitRequests(n int, d time.Duration) bool {
	deadline := time.Now().Add(d)
	for {
		s.mu.Lock()
		got, eof := len(s.req), s.eof
		s.mu.Unlock()
		if got >= n {
			return true
		}
		if eof || time.Now().After(deadline) {
			return false
		}
		time.Sleep(50 * time.Microsecond)
	}
}

// Respond writes one response frame.
func (s *ScriptServer) Respond(h ResHeader) error {
	return s.End.WriteMessage(RefEncodeResponse(s.Enc, h))
}

// RespondRaw writes arbitrary bytes as one frame.
func (s *ScriptServer) RespondRaw(b []byte) error { return s.End.WriteMessage(b) }
