package c02

import (
	"bytes"
	"context"
	"errors"
	"fmt"
	"io"
	"sync"
	"testing"
	"time"

	"github.com/hslam/rpc"
	"pgregory.net/rapid"
	"verif/harness/kit"
)

// Op is one step of a history.
type Op struct {
	K      string `json:"k"` // start | wok | wfail | resp | again | unknown | eof | rerr | close
	I      int    `json:"i,omitempty"`
	Form   string `json:"form,omitempty"` // go | roundtrip | call | ctx | ping
	Shared bool   `json:"shared,omitempty"`
	Err    bool   `json:"err,omitempty"`
	Seq    uint64 `json:"seq,omitempty"`
}

// Case is a history over one connection, or (Mode "transport") a history of calls through a real
// Transport whose servers are killed and restarted.
type Case struct {
	Mode       string   `json:"mode,omitempty"` // "" | transport
	Enc        string   `json:"enc"`
	DirectIO   bool     `json:"direct_io"`
	Pipelining bool     `json:"pipelining"`
	Ops        []Op     `json:"ops,omitempty"`
	TCfg       kit.TCfg `json:"tcfg,omitempty"`
	TOps       []TOp    `json:"tops,omitempty"`
}

// TOp is one step of a transport-mode history.
type TOp struct {
	K    string `json:"k"` // call | kill | restart | sleep
	A    int    `json:"a,omitempty"`
	Form string `json:"form,omitempty"` // go | roundtrip | call | ctx | ping
	Ms   int    `json:"ms,omitempty"`
}

func genTransport(t *rapid.T) Case {
	c := Case{Mode: "transport", Enc: rapid.SampledFrom(kit.Encoders).Draw(t, "enc")}
	c.TCfg = kit.TCfg{
		Addrs:     rapid.IntRange(1, 2).Draw(t, "addrs"),
		Max:       rapid.SampledFrom([]int{0, 1, 2}).Draw(t, "max"),
		MaxIdle:   rapid.SampledFrom([]int{0, 1, 2}).Draw(t, "max_idle"),
		KeepAlive: rapid.SampledFrom([]int{5, 50, 2000}).Draw(t, "keep_alive"),
		IdleTO:    rapid.SampledFrom([]int{5, 50, 2000}).Draw(t, "idle_to"),
		TickUS:    2000,
		Enc:       c.Enc,
	}
	n := rapid.IntRange(3, 25).Draw(t, "nops")
	for i := 0; i < n; i++ {
		a := rapid.IntRange(0, c.TCfg.Addrs-1).Draw(t, "a")
		k := rapid.IntRange(0, 9).Draw(t, "k")
		switch {
		case k <= 5:
			c.TOps = append(c.TOps, TOp{K: "call", A: a, Form: rapid.SampledFrom([]string{"go", "go", "roundtrip", "roundtrip", "call", "ctx", "ping"}).Draw(t, "form")})
		case k == 6:
			c.TOps = append(c.TOps, TOp{K: "kill", A: a})
		case k <= 8:
			c.TOps = append(c.TOps, TOp{K: "restart", A: a})
		default:
			c.TOps = append(c.TOps, TOp{K: "sleep", Ms: rapid.SampledFrom([]int{1, 5, 25}).Draw(t, "ms")})
		}
	}
	return c
}

func gen(t *rapid.T) Case {
	if rapid.IntRange(0, 4).Draw(t, "transport_mode") == 0 {
		return genTransport(t)
	}
	c := Case{
		Enc:        rapid.SampledFrom(kit.Encoders).Draw(t, "enc"),
		DirectIO:   rapid.Bool().Draw(t, "direct_io"),
		Pipelining: rapid.IntRange(0, 3).Draw(t, "pipelining") == 0,
	}
	n := rapid.IntRange(1, 25).Draw(t, "nops")
	starts := 0
	for len(c.Ops) < n {
		k := rapid.IntRange(0, 19).Draw(t, "kind")
		if starts == 0 {
			k = 0
		}
		var op Op
		switch {
		case k <= 5:
			op = Op{K: "start", Form: rapid.SampledFrom([]string{"go", "go", "roundtrip", "call", "ctx", "ping"}).Draw(t, "form"), Shared: rapid.Bool().Draw(t, "shared")}
			starts++
		case k <= 8:
			op = Op{K: "wok", I: rapid.IntRange(0, starts-1).Draw(t, "i")}
		case k <= 10:
			op = Op{K: "wfail", I: rapid.IntRange(0, starts-1).Draw(t, "i")}
		case k <= 13:
			op = Op{K: "resp", I: rapid.IntRange(0, starts-1).Draw(t, "i"), Err: rapid.IntRange(0, 3).Draw(t, "err") == 0}
		case k == 14:
			op = Op{K: "again", I: rapid.IntRange(0, starts-1).Draw(t, "i")}
		case k == 15:
			op = Op{K: "unknown", Seq: rapid.Uint64Range(50, 1000).Draw(t, "seq")}
		case k == 16:
			op = Op{K: "eof"}
		case k == 17:
			op = Op{K: "rerr"}
		case k == 18:
			op = Op{K: "close"}
		default:
			op = Op{K: "wok", I: rapid.IntRange(0, starts-1).Draw(t, "i")}
		}
		c.Ops = append(c.Ops, op)
	}
	return c
}

type signal struct {
	call *rpc.Call
	err  error
	text string
}

type callState struct {
	idx      int
	form     string
	call     *rpc.Call // go / roundtrip
	started  chan *rpc.Call
	noGate   bool
	args     []byte
	reply    []byte
	gate     *kit.GatedWrite
	seq      uint64
	seqKnown bool
	decided  bool
	wrote    bool
	wfailed  bool
	okResp   bool // an ok response for its seq was released
	errResp  bool
	returned chan error // blocking forms
	retErr   error
	retDone  bool
	cancel   context.CancelFunc
}

const bound = 10 * time.Second

func timing(clause, format string, a ...interface{}) kit.Outcome {
	o := kit.Fail(clause, format, a...)
	o.Timing = true
	return o
}

func errText(id uint64) string { return fmt.Sprintf("handler-error-%d", id) }

// runTransport: Go / RoundTrip (own Done channel with room for 4) and the blocking forms through a
// real Transport over the in-memory network while servers are killed and restarted, so that calls
// meet stale pooled connections. Every Done channel must carry its call exactly once, the call it
// carries must be the one the caller holds, and its Error must not change afterwards.
func runTransport(c Case) kit.Outcome {
	if !c.TCfg.Valid() || len(c.TOps) == 0 || len(c.TOps) > 200 {
		return kit.Outcome{Invalid: true}
	}
	for _, op := range c.TOps {
		if op.A < 0 || op.A >= c.TCfg.Addrs || op.Ms < 0 || op.Ms > 1000 {
			return kit.Outcome{Invalid: true}
		}
	}
	w, err := kit.NewTWorld(c.TCfg)
	if err != nil {
		return kit.Undecided("%v", err)
	}
	defer w.Close()
	var hist []string
	h := func(format string, a ...interface{}) { hist = append(hist, fmt.Sprintf(format, a...)) }
	fail := func(o kit.Outcome) kit.Outcome { o.History = hist; return o }
	type done struct {
		idx   int
		form  string
		call  *rpc.Call
		ch    chan *rpc.Call
		err   error
		text  string
		args  []byte
		reply *[]byte
	}
	var dones []*done
	recheck := func(when string) *kit.Outcome {
		for _, d := range dones {
			select {
			case again := <-d.ch:
				o := kit.Fail("signalled-twice", "call %d (%s through the Transport) was delivered on its Done channel a second time %s (second delivery is the same call: %v, Error now %v, first %v)", d.idx, d.form, when, again == d.call, again.Error, d.err)
				return &o
			default:
			}
			if d.call.Error != d.err || (d.err != nil && d.call.Error.Error() != d.text) {
				o := kit.Fail("error-changed", "call %d (%s through the Transport): Error was %v when completion was signalled and is %v %s", d.idx, d.form, d.err, d.call.Error, when)
				return &o
			}
		}
		return nil
	}
	kills, stale, asyncCalls := 0, 0, 0
	up := make([]bool, c.TCfg.Addrs)
	for i := range up {
		up[i] = true
	}
	restartedAfterKill := make([]bool, c.TCfg.Addrs)
	for idx, op := range c.TOps {
		switch op.K {
		case "kill":
			if up[op.A] {
				w.Kill(op.A)
				up[op.A] = false
				kills++
				h("kill %d", op.A)
			}
		case "restart":
			if !up[op.A] {
				if err := w.Restart(op.A); err != nil {
					return fail(kit.Undecided("restart: %v", err))
				}
				up[op.A] = true
				restartedAfterKill[op.A] = true
				h("restart %d", op.A)
			}
		case "sleep":
			time.Sleep(time.Duration(op.Ms) * time.Millisecond)
		case "call":
			id := w.NextID()
			args := kit.MakePayload(id, kit.DirEcho, uint32(id), 48)
			reply := new([]byte)
			addr := w.Addrs[op.A]
			if restartedAfterKill[op.A] {
				stale++
				restartedAfterKill[op.A] = false
			}
			switch op.Form {
			case "go", "roundtrip":
				ch := make(chan *rpc.Call, 4)
				var call *rpc.Call
				if op.Form == "go" {
					call = w.Tr.Go(addr, "S.Echo", &args, reply, ch)
				} else {
					call = w.Tr.RoundTrip(addr, &rpc.Call{ServiceMethod: "S.Echo", Args: &args, Reply: reply, Done: ch})
				}
				asyncCalls++
				select {
				case got := <-ch:
					if got != call {
						return fail(kit.Fail("foreign-call-on-done", "call %d (%s through the Transport): the Done channel delivered a Call that is not the one returned to the caller (its Error: %v; the returned call's Error: %v)", idx, op.Form, got.Error, call.Error))
					}
				case <-time.After(bound):
					return fail(timing("never-completed", "call %d (%s through the Transport) was not signalled within %v", idx, op.Form, bound))
				}
				d := &done{idx: idx, form: op.Form, call: call, ch: ch, err: call.Error, args: args, reply: reply}
				if call.Error != nil {
					d.text = call.Error.Error()
				} else if !bytes.Equal(*reply, kit.Transform(args)) {
					return fail(kit.Fail("wrong-reply", "call %d (%s through the Transport) completed without error but with a wrong reply", idx, op.Form))
				}
				h("%s to %d -> %v", op.Form, op.A, call.Error)
				dones = append(dones, d)
			case "call", "ctx", "ping":
				rc := make(chan error, 1)
				go func() {
					switch op.Form {
					case "call":
						rc <- w.Tr.Call(addr, "S.Echo", &args, reply)
					case "ctx":
						rc <- w.Tr.CallWithContext(context.Background(), addr, "S.EchoCtx", &args, reply)
					default:
						rc <- w.Tr.Ping(addr)
					}
				}()
				select {
				case err := <-rc:
					h("%s to %d -> %v", op.Form, op.A, err)
				case <-time.After(bound):
					return fail(timing("never-completed", "call %d (%s through the Transport) did not return within %v", idx, op.Form, bound))
				}
			default:
				return kit.Outcome{Invalid: true}
			}
		default:
			return kit.Outcome{Invalid: true}
		}
		if o := recheck(fmt.Sprintf("after step %d (%s)", idx, op.K)); o != nil {
			return fail(*o)
		}
	}
	time.Sleep(20 * time.Millisecond)
	if o := recheck("20 ms after the end of the history"); o != nil {
		return fail(*o)
	}
	out := kit.Outcome{Classes: []string{"transport", "enc=" + c.Enc}, Counters: map[string]int{"transport_async_calls": asyncCalls}}
	if kills > 0 && asyncCalls >= 2 {
		out.Nontrivial = true
	}
	if stale > 0 {
		out.Classes = append(out.Classes, "call-meets-stale-pooled-connection")
	}
	return out
}

func run(c Case) kit.Outcome {
	if kit.HeaderEncoder(c.Enc) == nil && c.Enc != "default" {
		return kit.Outcome{Invalid: true}
	}
	if c.Mode == "transport" {
		return runTransport(c)
	}
	if c.Mode != "" {
		return kit.Outcome{Invalid: true}
	}
	if len(c.Ops) > 200 {
		return kit.Outcome{Invalid: true}
	}
	link := kit.NewFrameLink()
	link.C.SetGate(256)
	srv := kit.NewScriptServer(link, c.Enc)
	_ = srv
	conn := kit.NewLinkConn(link, c.Enc)
	if c.Pipelining {
		conn.SetPipelining(true)
	}
	conn.SetDirectIO(c.DirectIO)

	var hist []string
	h := func(format string, a ...interface{}) { hist = append(hist, fmt.Sprintf(format, a...)) }
	fail := func(o kit.Outcome) kit.Outcome {
		o.History = hist
		// let everything go so the case does not leak goroutines
		conn.Close()
		return o
	}

	// watchers: every receive on a Done channel is recorded at once with a deep copy of Error
	var mu sync.Mutex
	var signals []signal
	stop := make(chan struct{})
	defer close(stop)
	watch := func(ch chan *rpc.Call) {
		go func() {
			for {
				select {
				case cl := <-ch:
					s := signal{call: cl, err: cl.Error}
					if cl.Error != nil {
						s.text = string([]byte(cl.Error.Error()))
					}
					mu.Lock()
					signals = append(signals, s)
					mu.Unlock()
				case <-stop:
					return
				}
			}
		}()
	}
	shared := make(chan *rpc.Call, 256)
	watch(shared)

	var calls []*callState
	registered := uint64(0) // sequence numbers handed out so far (model)
	connDead := false       // an event that ends the connection has happened
	gateBusy := 0           // pipelining: number of undecided writes (only the first is at the gate)
	classes := map[string]bool{}
	nontrivial := false
	unwritten := func() int {
		n := 0
		for _, cs := range calls {
			if cs.gate != nil && !cs.decided {
				n++
			}
		}
		return n
	}

	// attribute finds the call a parked write belongs to (by the call id inside its payload;
	// pings carry no payload and are interchangeable).
	attribute := func(g *kit.GatedWrite) *callState {
		hd, err := kit.RefDecodeRequest(c.Enc, g.Data)
		if err != nil {
			return nil
		}
		var cs *callState
		if id, _, ok := kit.ParsePayload(hd.Args); ok && id >= 1 && int(id) <= len(calls) {
			cs = calls[id-1]
		} else {
			for _, x := range calls {
				if x.form == "ping" && x.gate == nil {
					cs = x
					break
				}
			}
		}
		if cs == nil || cs.gate != nil {
			return nil
		}
		cs.gate, cs.seq, cs.seqKnown = g, hd.Seq, true
		return cs
	}
	// takeGate waits for the next write to arrive at the gate and attributes it.
	takeGate := func() *callState {
		select {
		case g := <-link.C.Writes:
			cs := attribute(g)
			if cs == nil {
				g.Succeed()
			}
			return cs
		case <-time.After(bound):
			return nil
		}
	}

	for _, op := range c.Ops {
		switch op.K {
		case "start":
			idx := len(calls)
			cs := &callState{idx: idx, form: op.Form}
			id := uint64(idx + 1)
			cs.args = kit.MakePayload(id, kit.DirEcho, uint32(idx), 24)
			calls = append(calls, cs)
			expectGate := !connDead && (!c.Pipelining || gateBusy == 0)
			switch op.Form {
			case "go", "roundtrip":
				var ch chan *rpc.Call
				if op.Shared {
					ch = shared
				} else {
					ch = make(chan *rpc.Call, 4)
					watch(ch)
				}
				started := make(chan *rpc.Call, 1)
				cs.started = started
				go func() {
					if op.Form == "go" {
						started <- conn.Go("S.Echo", &cs.args, &cs.reply, ch)
					} else {
						cl := &rpc.Call{ServiceMethod: "S.Echo", Args: &cs.args, Reply: &cs.reply, Done: ch}
						started <- conn.RoundTrip(cl)
					}
				}()
				// without pipelining Go returns only after the write: wait for the gate first
				if expectGate {
					if takeGate() != cs {
						return fail(kit.Undecided("request %d never reached the write gate", idx))
					}
					h("start %d %s seq=%d (at write gate)", idx, op.Form, cs.seq)
					registered++
					if c.Pipelining {
						gateBusy++
					}
				} else {
					cs.noGate = connDead
					if c.Pipelining && !connDead {
						gateBusy++
					}
					h("start %d %s (no write expected now: dead=%v queued=%v)", idx, op.Form, connDead, c.Pipelining)
				}
			case "call", "ctx", "ping":
				cs.returned = make(chan error, 1)
				ctx, cancel := context.WithCancel(context.Background())
				cs.cancel = cancel
				go func() {
					switch op.Form {
					case "call":
						cs.returned <- conn.Call("S.Echo", &cs.args, &cs.reply)
					case "ctx":
						cs.returned <- conn.CallWithContext(ctx, "S.Echo", &cs.args, &cs.reply)
					default:
						cs.returned <- conn.Ping()
					}
				}()
				if expectGate {
					if g := takeGate(); g != cs && !(g != nil && g.form == "ping" && cs.form == "ping") {
						return fail(kit.Undecided("request %d never reached the write gate", idx))
					}
					registered++
					if c.Pipelining {
						gateBusy++
					}
					h("start %d %s seq=%d (at write gate)", idx, op.Form, cs.seq)
				} else {
					cs.noGate = connDead
					if c.Pipelining && !connDead {
						gateBusy++
					}
					h("start %d %s (no write expected now)", idx, op.Form)
				}
			default:
				return kit.Outcome{Invalid: true}
			}
		case "wok", "wfail":
			if op.I < 0 || op.I >= len(calls) {
				continue
			}
			cs := calls[op.I]
			if cs.gate == nil || cs.decided {
				continue
			}
			cs.decided = true
			if op.K == "wok" {
				cs.gate.Succeed()
				cs.wrote = true
				h("write %d succeeds", op.I)
			} else {
				cs.gate.Fail(kit.ErrLinkWrite)
				cs.wfailed = true
				classes["write-failure"] = true
				nontrivial = true
				h("write %d fails", op.I)
			}
			if c.Pipelining {
				gateBusy--
				// the next queued write (if any) now reaches the gate
				if gateBusy > 0 && !connDead {
					nx := takeGate()
					if nx == nil {
						return fail(kit.Undecided("no queued request reached the write gate although %d are queued", gateBusy))
					}
					registered++
					h("queued %d seq=%d reaches the write gate", nx.idx, nx.seq)
				}
			}
			if c.DirectIO {
				time.Sleep(200 * time.Microsecond)
			}
		case "resp", "again":
			if op.I < 0 || op.I >= len(calls) {
				continue
			}
			cs := calls[op.I]
			if !cs.seqKnown || connDead {
				continue
			}
			if op.K == "again" {
				if !cs.okResp && !cs.errResp {
					continue
				}
				classes["duplicate-response"] = true
				nontrivial = true
			}
			res := kit.ResHeader{Seq: cs.seq}
			if op.Err && cs.form != "ping" {
				res.Error = errText(uint64(cs.idx))
				cs.errResp = true
			} else {
				if cs.form != "ping" {
					res.Reply = kit.Transform(cs.args)
				}
				cs.okResp = true
			}
			if !cs.wrote {
				classes["response-before-write-decided"] = true
			}
			if err := srv.Respond(res); err != nil {
				continue
			}
			h("%s %d seq=%d err=%v", op.K, op.I, cs.seq, op.Err)
			link.C.WaitReaderIdle(bound)
		case "unknown":
			if connDead {
				continue
			}
			if op.Seq < registered {
				continue
			}
			srv.Respond(kit.ResHeader{Seq: op.Seq, Reply: []byte("unsolicited")})
			classes["unknown-response"] = true
			nontrivial = true
			h("unsolicited response seq=%d", op.Seq)
			link.C.WaitReaderIdle(bound)
		case "eof", "rerr", "close":
			if connDead {
				continue
			}
			connDead = true
			if unwritten() > 0 {
				classes["end-with-unwritten-call"] = true
				nontrivial = true
			}
			switch op.K {
			case "eof":
				link.C.InjectReadError(io.EOF, false)
				h("peer EOF")
			case "rerr":
				link.C.InjectReadError(kit.ErrLinkReset, false)
				h("read error")
			default:
				err := conn.Close()
				h("local Close -> %v", err)
			}
			link.C.WaitReadEnded(2 * time.Second)
			time.Sleep(300 * time.Microsecond)
		default:
			return kit.Outcome{Invalid: true}
		}
	}

	// wind down: decide every parked write (success), then end the connection, then settle
	deadline := time.Now().Add(bound)
	for {
		progress := false
		for _, cs := range calls {
			if cs.gate != nil && !cs.decided {
				cs.decided = true
				cs.wrote = true
				cs.gate.Succeed()
				progress = true
				h("wind-down: write %d succeeds", cs.idx)
			}
		}
		// further queued writes may arrive at the gate
		select {
		case g := <-link.C.Writes:
			if cs := attribute(g); cs != nil {
				cs.decided, cs.wrote = true, true
				h("wind-down: write %d (seq %d) succeeds", cs.idx, cs.seq)
			}
			g.Succeed()
			progress = true
		case <-time.After(2 * time.Millisecond):
		}
		if !progress || time.Now().After(deadline) {
			break
		}
	}
	if !connDead {
		link.C.InjectReadError(io.EOF, false)
		h("wind-down: peer EOF")
	}
	// late writes after the end
	go func() {
		for {
			select {
			case g := <-link.C.Writes:
				g.Succeed()
			case <-stop:
				return
			}
		}
	}()
	defer func() {
		for _, cs := range calls {
			if cs.cancel != nil {
				cs.cancel()
			}
		}
	}()
	// the asynchronous forms have returned their Call by now
	for _, cs := range calls {
		if cs.started == nil {
			continue
		}
		select {
		case cs.call = <-cs.started:
		case <-time.After(bound):
			return fail(timing("never-returned", "%s for call %d did not return within %v after its write was decided and the connection ended", cs.form, cs.idx, bound))
		}
	}

	// every blocking call returns
	for _, cs := range calls {
		if cs.returned == nil {
			continue
		}
		select {
		case err := <-cs.returned:
			cs.retErr, cs.retDone = err, true
		case <-time.After(bound):
			return fail(timing("never-completed", "blocking %s call %d did not return within %v after the connection ended", cs.form, cs.idx, bound))
		}
	}
	// every asynchronous call is signalled
	for _, cs := range calls {
		if cs.returned != nil {
			continue
		}
		dl := time.Now().Add(bound)
		for {
			mu.Lock()
			n := 0
			for _, s := range signals {
				if cs.call != nil && s.call == cs.call {
					n++
				}
			}
			mu.Unlock()
			if n > 0 {
				break
			}
			if time.Now().After(dl) {
				return fail(timing("never-completed", "asynchronous %s call %d was never signalled within %v after the connection ended", cs.form, cs.idx, bound))
			}
			time.Sleep(100 * time.Microsecond)
		}
	}
	// settle before asserting the absence of a second signal
	settle := 3 * time.Millisecond
	if !c.DirectIO || c.Pipelining {
		settle = 20 * time.Millisecond
	}
	time.Sleep(settle)

	mu.Lock()
	sigs := append([]signal(nil), signals...)
	mu.Unlock()
	byCall := map[*rpc.Call][]signal{}
	for _, s := range sigs {
		byCall[s.call] = append(byCall[s.call], s)
	}
	owner := map[*rpc.Call]*callState{}
	for _, cs := range calls {
		if cs.call != nil {
			owner[cs.call] = cs
		}
	}
	for cl, ss := range byCall {
		if owner[cl] == nil {
			return fail(kit.Fail("stray-signal", "a Done channel received a Call that no asynchronous call of this history owns (%d times)", len(ss)))
		}
	}
	pingOK, pingResp := 0, 0
	for _, cs := range calls {
		var err error
		if cs.returned == nil {
			ss := byCall[cs.call]
			if len(ss) != 1 {
				return fail(kit.Fail("signalled-twice", "%s call %d was signalled %d times on its Done channel (first error %q, last error %q)", cs.form, cs.idx, len(ss), ss[0].text, ss[len(ss)-1].text))
			}
			first := ss[0]
			nowErr := cs.call.Error
			nowText := ""
			if nowErr != nil {
				nowText = nowErr.Error()
			}
			if nowErr != first.err || nowText != first.text {
				return fail(kit.Fail("error-changed", "%s call %d: Error was %q when completion was signalled and is %q afterwards", cs.form, cs.idx, first.text, nowText))
			}
			err = first.err
		} else {
			err = cs.retErr
		}
		// outcome must be justified by the history
		if cs.form == "ping" {
			// pings carry no payload and are interchangeable: judged as a group below
			if err == nil {
				pingOK++
			}
			if cs.okResp {
				pingResp++
			}
			continue
		}
		switch {
		case err == nil:
			if !cs.okResp {
				return fail(kit.Fail("success-without-response", "%s call %d completed successfully although no successful response for it was ever delivered", cs.form, cs.idx))
			}
			if cs.form != "ping" && string(cs.reply) != string(kit.Transform(cs.args)) {
				return fail(kit.Fail("wrong-reply", "%s call %d succeeded with a reply that is not its own", cs.form, cs.idx))
			}
		case err.Error() == errText(uint64(cs.idx)):
			if !cs.errResp {
				return fail(kit.Fail("error-without-response", "%s call %d failed with a handler error text nobody sent", cs.form, cs.idx))
			}
		}
	}
	if pingOK > pingResp {
		return fail(kit.Fail("success-without-response", "%d pings completed successfully although only %d successful ping responses were ever delivered", pingOK, pingResp))
	}
	// NumCalls after the connection ended is observed, not asserted (the statement does not
	// promise it).
	residue := int(conn.NumCalls())
	conn.Close()
	out := kit.Outcome{Nontrivial: nontrivial, Counters: map[string]int{"numcalls_after_end": residue, "calls": len(calls)}}
	for k := range classes {
		out.Classes = append(out.Classes, k)
	}
	if c.DirectIO {
		out.Classes = append(out.Classes, "direct-io")
	}
	if c.Pipelining {
		out.Classes = append(out.Classes, "pipelining")
	}
	return out
}

var _ = errors.New

var prop = kit.Property[Case]{
	ID:    "C02",
	Level: "exploration",
	Rule:  "rapid-generated histories (1-25 steps) over one real Conn whose socket.Messages is a harness-owned gated frame link to a scripted server: start(Go|RoundTrip|Call|CallWithContext|Ping, shared or own Done channel with room), write succeeds/fails (the request is parked at the write gate, so the call is registered but unwritten), response / error response / duplicate response / unsolicited sequence number, peer EOF, read error, local Close; header encoder, direct IO and client pipelining drawn. Every receive on every Done channel is recorded at once with a deep copy of Error. A fifth of the cases are transport histories instead: Go / RoundTrip (Done channel with room for 4) and the blocking forms through a real Transport over the in-memory network while 1-2 servers are killed and restarted, so that calls meet stale pooled connections; oracle: the Done channel carries the caller's own Call exactly once and its Error never changes afterwards. Non-trivial: the history contains a write failure, or the connection ends while a call is registered but unwritten, or a duplicate/unsolicited response; (transport) a kill and >= 2 asynchronous calls; distinct by SHA-1 of the case.",
	Assumptions: []string{
		"the frame link models what a TCP connection can do (delay, fail a write, end the stream); it reports write errors synchronously",
		"absence of a second signal is asserted after a settle period (3 ms direct IO, 20 ms asynchronous); a later duplicate would be missed",
		"Done channels have room for the calls they carry (the property's proviso)",
	},
	Gen: gen,
	Run: run,
}

func TestProperty(t *testing.T) { kit.Check(t, prop) }
