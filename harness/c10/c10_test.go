package c10

import (
	"bytes"
	"fmt"
	"io"
	"testing"
	"time"

	"github.com/hslam/rpc"
	"pgregory.net/rapid"
	"verif/harness/kit"
)

// StreamSpec is one stream of a case.
type StreamSpec struct {
	ClientBlocked bool `json:"client_blocked"`      // a client goroutine is blocked in ReadMessage at the event
	Warm          int  `json:"warm"`                // echo rounds before the event
	InFlight      bool `json:"in_flight"`           // a client message is written right before the event, its echo not awaited
	BadWrite      bool `json:"bad_write,omitempty"` // before the event the client writes a value the body codec cannot encode (the write fails)
}

// Case is streams (plus an optional gated unary call) on one connection and one event.
type Case struct {
	M       kit.Modes    `json:"modes"`
	Streams []StreamSpec `json:"streams"`
	Unary   bool         `json:"unary"`  // a unary call is executing (gated) at the event
	Event   string       `json:"event"`  // sclose | cclose | peerclose | cut | srvclose | rawdrop
	Target  int          `json:"target"` // sclose: which stream
	CutErr  string       `json:"cut_err,omitempty"`
}

var events = map[string][]string{
	"frame": {"sclose", "cclose", "peerclose"},
	"bytes": {"sclose", "cclose", "peerclose", "cut", "srvclose"},
	"unix":  {"sclose", "cclose", "srvclose", "rawdrop", "rawdrop"},
}

func genModes(t *rapid.T) kit.Modes {
	m := kit.Modes{
		Enc:           rapid.SampledFrom(kit.Encoders).Draw(t, "enc"),
		SrvPipelining: rapid.IntRange(0, 2).Draw(t, "srv_pipe") == 0,
		SrvDirect:     rapid.Bool().Draw(t, "srv_direct"),
		CliDirect:     rapid.Bool().Draw(t, "cli_direct"),
		Link:          rapid.SampledFrom([]string{"frame", "bytes", "unix", "unix"}).Draw(t, "link"),
	}
	if m.Link == "unix" {
		m.Poll = rapid.Bool().Draw(t, "poll")
	}
	kit.DrawBuffers(t, &m)
	return m
}

func gen(t *rapid.T) Case {
	c := Case{M: genModes(t)}
	n := rapid.IntRange(1, 3).Draw(t, "streams")
	for i := 0; i < n; i++ {
		c.Streams = append(c.Streams, StreamSpec{
			ClientBlocked: rapid.Bool().Draw(t, "client_blocked"),
			Warm:          rapid.IntRange(0, 3).Draw(t, "warm"),
			InFlight:      rapid.IntRange(0, 3).Draw(t, "in_flight") == 0,
			BadWrite:      rapid.IntRange(0, 3).Draw(t, "bad_write") == 0,
		})
	}
	c.Unary = !c.M.SrvPipelining && rapid.Bool().Draw(t, "unary")
	c.Event = rapid.SampledFrom(events[c.M.Link]).Draw(t, "event")
	c.Target = rapid.IntRange(0, n-1).Draw(t, "target")
	if c.Event == "cut" {
		c.CutErr = rapid.SampledFrom([]string{"eof", "io"}).Draw(t, "cut_err")
	}
	return c
}

func enum(tier string, yield func(Case)) {
	// every event x link/poll mode x block pattern, fixed small shape
	type lm struct {
		link string
		poll bool
	}
	for _, l := range []lm{{"frame", false}, {"bytes", false}, {"unix", false}, {"unix", true}} {
		for _, ev := range events[l.link] {
			for pat := 0; pat < 4; pat++ {
				for _, direct := range []bool{false, true} {
					for _, pipe := range []bool{false, true} {
						c := Case{M: kit.Modes{Enc: "default", Link: l.link, Poll: l.poll, SrvDirect: direct, CliDirect: direct, SrvPipelining: pipe}, Event: ev, Target: 0}
						c.Streams = []StreamSpec{{ClientBlocked: pat != 1, Warm: 1, InFlight: pat == 2, BadWrite: pat == 3}, {ClientBlocked: pat == 1, Warm: 0}}
						c.Unary = !pipe
						if ev == "rawdrop" {
							if pat >= 2 {
								continue
							}
							c.Streams = c.Streams[:1+pat]
							for _, u := range []bool{false, true} {
								c.Unary = u && !pipe
								yield(c)
							}
							continue
						}
						if ev == "cut" {
							for _, ce := range []string{"eof", "io"} {
								c.CutErr = ce
								yield(c)
							}
							continue
						}
						yield(c)
					}
				}
			}
		}
	}
}

const (
	bound  = 10 * time.Second
	prompt = 2 * time.Second
)

func timing(clause, format string, a ...interface{}) kit.Outcome {
	o := kit.Fail(clause, format, a...)
	o.Timing = true
	return o
}

type readRes struct {
	m   []byte
	err error
}

func run(c Case) kit.Outcome {
	if !c.M.Valid() || len(c.Streams) == 0 || len(c.Streams) > 4 || c.Target < 0 || c.Target >= len(c.Streams) {
		return kit.Outcome{Invalid: true}
	}
	okEvent := false
	for _, e := range events[c.M.Link] {
		if e == c.Event {
			okEvent = true
		}
	}
	if !okEvent || (c.Unary && c.M.SrvPipelining) || c.M.CliPipelining {
		return kit.Outcome{Invalid: true}
	}
	for _, sp := range c.Streams {
		if sp.Warm < 0 || sp.Warm > 50 {
			return kit.Outcome{Invalid: true}
		}
	}
	sig := fmt.Sprintf("link=%s poll=%v event=%s pipe=%v direct=%v", c.M.Link, c.M.Poll, c.Event, c.M.SrvPipelining, c.M.SrvDirect)
	if c.Event == "rawdrop" {
		return runRawDrop(c, sig)
	}
	s, err := kit.NewSession(c.M)
	if err != nil {
		return kit.Undecided("%v", err)
	}
	defer s.Close()
	for i := range c.Streams {
		s.Env.SetStreamPlan(i, kit.StreamPlan{Behaviour: "echo", Reads: -1})
	}
	conn, err := s.Dial()
	if err != nil {
		return kit.Undecided("dial: %v", err)
	}
	var hist []string
	h := func(f string, a ...interface{}) { hist = append(hist, fmt.Sprintf(f, a...)) }
	fail := func(o kit.Outcome) kit.Outcome { o.History = hist; o.Sig = sig; return o }

	streams := make([]rpc.Stream, len(c.Streams))
	blocked := make([]chan readRes, len(c.Streams))
	for i, sp := range c.Streams {
		oc := make(chan error, 1)
		go func() {
			st, err := conn.NewStream(fmt.Sprintf("S.Stream%d", i))
			streams[i] = st
			oc <- err
		}()
		select {
		case err := <-oc:
			if err != nil {
				return kit.Undecided("NewStream %d: %v", i, err)
			}
		case <-time.After(bound):
			return kit.Undecided("NewStream %d did not return", i)
		}
		for k := 0; k < sp.Warm; k++ {
			m := kit.MakePayload(uint64(i+1)<<32|uint64(k+1), 0, 1, 40)
			if err := streams[i].WriteMessage(&m); err != nil {
				return kit.Undecided("warm write: %v", err)
			}
			rc := make(chan readRes, 1)
			go func() {
				var r []byte
				err := streams[i].ReadMessage(nil, &r)
				rc <- readRes{r, err}
			}()
			select {
			case r := <-rc:
				if r.err != nil || !bytes.Equal(r.m, kit.Transform(m)) {
					return kit.Undecided("warm echo %d/%d wrong: %v", i, k, r.err)
				}
			case <-time.After(bound):
				return kit.Undecided("warm echo %d/%d did not arrive", i, k)
			}
		}
	}
	// a failed stream write (the value cannot be encoded by the bytes codec) must not exempt the stream
	// from being released later
	badWrites := 0
	for i, sp := range c.Streams {
		if sp.BadWrite {
			bad := "not a *[]byte"
			werr := streams[i].WriteMessage(&bad)
			h("stream %d: WriteMessage of an unencodable value -> %v", i, werr)
			badWrites++
		}
	}
	// the gated unary call
	var unaryRes chan error
	var unaryArgs, unaryReply []byte
	if c.Unary {
		unaryArgs = kit.MakePayload(9999, kit.DirGate, 5, 64)
		unaryRes = make(chan error, 1)
		go func() { unaryRes <- conn.Call("S.Echo", &unaryArgs, &unaryReply) }()
		if !s.Env.WaitStartedIDs([]uint64{9999}, bound) {
			return kit.Undecided("gated unary call did not start")
		}
	}
	// blocked client readers
	nBlocked := 0
	for i, sp := range c.Streams {
		if sp.ClientBlocked {
			ch := make(chan readRes, 1)
			blocked[i] = ch
			st := streams[i]
			go func() {
				var r []byte
				err := st.ReadMessage(nil, &r)
				ch <- readRes{r, err}
			}()
			nBlocked++
		}
	}
	// server handlers are blocked in Read when idle; wait until they say so
	deadline := time.Now().Add(bound)
	for i := range c.Streams {
		for !s.Env.StreamSlot(i).Blocked {
			if time.Now().After(deadline) {
				return kit.Undecided("server handler %d never became idle", i)
			}
			time.Sleep(100 * time.Microsecond)
		}
	}
	time.Sleep(2 * time.Millisecond) // grace: the client readers are parked by now
	inflight := 0
	for i, sp := range c.Streams {
		if sp.InFlight && !sp.ClientBlocked {
			m := kit.MakePayload(uint64(i+1)<<32|0xffff, 0, 2, 3000)
			streams[i].WriteMessage(&m)
			inflight++
		}
	}
	h("%d streams open, %d client readers blocked, %d messages in flight, unary gated=%v", len(streams), nBlocked, inflight, c.Unary)

	connLevel := c.Event != "sclose"
	evAt := time.Now()
	switch c.Event {
	case "sclose":
		cl := make(chan error, 1)
		go func() { cl <- streams[c.Target].Close() }()
		select {
		case err := <-cl:
			h("Stream.Close(%d) -> %v", c.Target, err)
		case <-time.After(bound):
			return fail(timing("close-hangs", "Stream.Close on stream %d did not return within %v", c.Target, bound))
		}
	case "cclose":
		h("Conn.Close -> %v", conn.Close())
	case "peerclose":
		if c.M.Link == "frame" {
			s.Links[0].S.Close()
		} else {
			for _, mc := range s.Net.ClientConns("") {
				mc.Peer().Close()
			}
		}
		h("peer closed the connection")
	case "cut":
		var e error = io.EOF
		if c.CutErr == "io" {
			e = kit.ErrCutIO
		}
		for _, mc := range s.Net.ClientConns("") {
			mc.Sever(e)
		}
		h("connection cut (%s)", c.CutErr)
	case "srvclose":
		s.Srv.Close()
		h("Server.Close")
	}

	affected := func(i int) bool { return connLevel || i == c.Target }
	// 1. blocked client readers return ErrStreamShutdown
	for i := range c.Streams {
		if blocked[i] == nil || !affected(i) {
			continue
		}
		select {
		case r := <-blocked[i]:
			if r.err != rpc.ErrStreamShutdown {
				// a message in flight may legitimately be delivered first on an orderly end
				if r.err == nil {
					continue
				}
				return fail(kit.Fail("wrong-error", "stream %d: the blocked client ReadMessage returned %v after %s, expected ErrStreamShutdown", i, r.err, c.Event))
			}
		case <-time.After(bound):
			return fail(timing("client-read-stays-blocked", "stream %d: a client ReadMessage blocked before %s was still blocked %v afterwards", i, c.Event, bound))
		}
	}
	h("blocked client readers released after %v", time.Since(evAt))
	// 2. server handlers exit
	for i := range c.Streams {
		if !affected(i) {
			continue
		}
		dl := time.Now().Add(bound)
		for {
			rec := s.Env.StreamSlot(i)
			if rec.Exited {
				if rec.ExitErr != rpc.ErrStreamShutdown.Error() {
					return fail(kit.Fail("wrong-error", "stream %d: the server handler's blocked Read returned %q after %s, expected ErrStreamShutdown", i, rec.ExitErr, c.Event))
				}
				if rec.LaterDone && (rec.LaterReadErr != rpc.ErrStreamShutdown.Error() || rec.LaterWriteErr != rpc.ErrStreamShutdown.Error()) {
					return fail(kit.Fail("later-op-wrong-error", "stream %d: after the end the server handler's next Write returned %q and Read %q, expected ErrStreamShutdown for both", i, rec.LaterWriteErr, rec.LaterReadErr))
				}
				break
			}
			if time.Now().After(dl) {
				o := timing("handler-stays-blocked", "stream %d: the server-side handler was still blocked in Read %v after %s (unary handler gated: %v)", i, bound, c.Event, c.Unary)
				return fail(o)
			}
			time.Sleep(200 * time.Microsecond)
		}
	}
	h("server handlers exited after %v", time.Since(evAt))
	// 3. later operations on the client side fail at once
	for i, st := range streams {
		if !affected(i) {
			continue
		}
		rc := make(chan [2]error, 1)
		go func() {
			var r []byte
			m := []byte("later")
			// drain anything delivered before the end
			var rerr error
			for k := 0; k < 4; k++ {
				rerr = st.ReadMessage(nil, &r)
				if rerr != nil {
					break
				}
			}
			rc <- [2]error{rerr, st.WriteMessage(&m)}
		}()
		select {
		case e := <-rc:
			if e[0] != rpc.ErrStreamShutdown || e[1] != rpc.ErrStreamShutdown {
				return fail(kit.Fail("later-op-wrong-error", "stream %d: after %s a later client ReadMessage returned %v and WriteMessage %v, expected ErrStreamShutdown for both", i, c.Event, e[0], e[1]))
			}
		case <-time.After(prompt):
			return fail(timing("later-op-blocks", "stream %d: a ReadMessage/WriteMessage issued after %s did not return within %v", i, c.Event, prompt))
		}
	}
	// 4. a single Stream.Close leaves siblings and calls alone
	if !connLevel {
		for i, st := range streams {
			if i == c.Target {
				continue
			}
			m := kit.MakePayload(uint64(i+1)<<32|0xabcd, 0, 3, 100)
			if err := st.WriteMessage(&m); err != nil {
				return fail(kit.Fail("sibling-disturbed", "after closing stream %d, WriteMessage on sibling stream %d failed: %v", c.Target, i, err))
			}
			var got readRes
			if blocked[i] != nil {
				// its parked reader receives the echo
				select {
				case got = <-blocked[i]:
				case <-time.After(bound):
					return fail(timing("sibling-disturbed", "after closing stream %d, sibling stream %d no longer echoes", c.Target, i))
				}
			} else {
				rc := make(chan readRes, 1)
				go func() {
					var r []byte
					var err error
					for k := 0; k < 3; k++ { // skip the echo of an in-flight message
						err = st.ReadMessage(nil, &r)
						if err != nil || bytes.Equal(r, kit.Transform(m)) {
							break
						}
					}
					rc <- readRes{r, err}
				}()
				select {
				case got = <-rc:
				case <-time.After(bound):
					return fail(timing("sibling-disturbed", "after closing stream %d, sibling stream %d no longer echoes", c.Target, i))
				}
			}
			if got.err != nil || !bytes.Equal(got.m, kit.Transform(m)) {
				return fail(kit.Fail("sibling-disturbed", "after closing stream %d, sibling stream %d read (%s, %v) instead of its echo", c.Target, i, kit.Brief(got.m), got.err))
			}
		}
		if c.Unary {
			s.Env.Open(9999)
			select {
			case err := <-unaryRes:
				if err != nil || !bytes.Equal(unaryReply, kit.Transform(unaryArgs)) {
					return fail(kit.Fail("call-disturbed", "after closing stream %d, the unary call executing at that time completed with (%v) / wrong reply", c.Target, err))
				}
			case <-time.After(bound):
				return fail(timing("call-disturbed", "after closing stream %d, the unary call executing at that time did not complete", c.Target))
			}
		}
	}
	s.Env.OpenAll()
	out := kit.Outcome{Nontrivial: true, Classes: []string{"link=" + c.M.Link, "event=" + c.Event}}
	if c.M.Poll {
		out.Classes = append(out.Classes, "poll")
	}
	if nBlocked > 0 {
		out.Classes = append(out.Classes, "client-reader-blocked")
	}
	if c.Unary {
		out.Classes = append(out.Classes, "unary-executing")
	}
	if badWrites > 0 {
		out.Classes = append(out.Classes, "failed-stream-write-before-event")
	}
	return out
}

// runRawDrop: a scripted client over a real unix socket (poll-mode server or not) writes the
// open frames of 1-3 streams - optionally while a unary call of the same connection is executing -
// and disconnects in the same breath, before any acknowledgement. Whatever stream handler the
// server starts for those frames must come back from its blocked Read: the connection is gone.
func runRawDrop(c Case, sig string) kit.Outcome {
	if c.M.Link != "unix" {
		return kit.Outcome{Invalid: true}
	}
	s, err := kit.NewSession(c.M)
	if err != nil {
		return kit.Undecided("%v", err)
	}
	defer s.Close()
	rounds := 12
	for r := 0; r < rounds; r++ {
		if o := rawDropRound(s, c, sig, r); o.Violation != "" || o.Undecided != "" {
			return o
		}
	}
	out := kit.Outcome{Nontrivial: true, Sig: sig, Classes: []string{"event=rawdrop", "link=unix"}, Counters: map[string]int{"rawdrop_rounds": rounds}}
	if c.M.Poll {
		out.Classes = append(out.Classes, "poll")
	}
	if c.Unary {
		out.Classes = append(out.Classes, "unary-executing-at-event")
	}
	return out
}

func rawDropRound(s *kit.Session, c Case, sig string, round int) kit.Outcome {
	for i := range c.Streams {
		s.Env.SetStreamPlan(i, kit.StreamPlan{Behaviour: "echo", Reads: -1})
	}
	rc, err := kit.DialRaw("unix", s.Addr)
	if err != nil {
		return kit.Undecided("dial: %v", err)
	}
	cli := kit.NewScriptClientOn(rc, c.M.Enc, s.Env.Tick)
	seq := uint64(0)
	gateID := uint64(9000 + round)
	if c.Unary {
		args := kit.MakePayload(gateID, kit.DirGate, 5, 64)
		if err := cli.Send(kit.ReqHeader{Seq: seq, Method: "S.Echo", Args: args}); err != nil {
			return kit.Undecided("send: %v", err)
		}
		seq++
		if !s.Env.WaitStartedIDs([]uint64{gateID}, bound) {
			return kit.Undecided("gated unary call did not start")
		}
	}
	var hdrs []kit.ReqHeader
	for i := range c.Streams {
		hdrs = append(hdrs, kit.ReqHeader{Seq: seq, Method: fmt.Sprintf("S.Stream%d", i), Upgrade: []byte{kit.RefUpgrade(true, true, false, kit.StreamOpen)}})
		seq++
	}
	if err := cli.SendBatch(hdrs); err != nil {
		return kit.Undecided("send: %v", err)
	}
	if round%3 == 2 {
		time.Sleep(time.Duration(round*40) * time.Microsecond)
	}
	cli.Close() // gone before any acknowledgement was read
	evAt := time.Now()
	// every handler that was started comes back; the unary handler is still gated meanwhile
	time.Sleep(5 * time.Millisecond)
	dl := time.Now().Add(bound)
	for i := range c.Streams {
		for {
			rec := s.Env.StreamSlot(i)
			if rec.Started == 0 || rec.Exited {
				break
			}
			if time.Now().After(dl) {
				o := timing("handler-stays-blocked", "round %d: the client wrote the open frames of %d streams and disconnected at once; the handler of stream %d was started and was still blocked in Read %v later (poll=%v, unary handler gated: %v)", round, len(c.Streams), i, time.Since(evAt).Round(time.Millisecond), c.M.Poll, c.Unary)
				o.Sig = sig
				return o
			}
			time.Sleep(200 * time.Microsecond)
		}
	}
	if c.Unary {
		s.Env.Open(gateID)
	}
	// a handler may also be started late (its open frame was still queued at the disconnect)
	time.Sleep(3 * time.Millisecond)
	dl = time.Now().Add(bound)
	for i := range c.Streams {
		for {
			rec := s.Env.StreamSlot(i)
			if rec.Started == 0 || rec.Exited {
				break
			}
			if time.Now().After(dl) {
				o := timing("handler-stays-blocked", "round %d: the client wrote the open frames of %d streams and disconnected at once; the handler of stream %d, started after the disconnect, was still blocked in Read %v later (poll=%v, unary: %v)", round, len(c.Streams), i, time.Since(evAt).Round(time.Millisecond), c.M.Poll, c.Unary)
				o.Sig = sig
				return o
			}
			time.Sleep(200 * time.Microsecond)
		}
	}
	return kit.Outcome{}
}

var prop = kit.Property[Case]{
	ID:    "C10",
	Level: "fault_enumeration",
	Rule:  "enumeration of every event (client Stream.Close, Conn.Close, peer close, cut with EOF / IO error, Server.Close) x link (frame link, in-memory byte link, real unix sockets without and with poll) x block pattern (client reader blocked / not / message in flight) x direct IO x pipelining over two echo streams plus a gated unary call; plus rapid-generated cases with 1-3 streams, warm-up rounds, drawn blocked readers and in-flight messages, all header encoders. Server handlers are always blocked in Read when idle (observed through a marker). Oracle: after a connection-level event every blocked client ReadMessage returns ErrStreamShutdown within 10 s, every stream handler's blocked Read returns ErrStreamShutdown (handler exit logged) within 10 s and its next Write/Read fail with it too, later client Read/Write return it within 2 s; after a single Stream.Close the same holds for that stream while sibling streams still echo and the executing unary call completes with its own reply. Non-trivial: every case has at least one reader actually blocked at the event (the server handler); distinct by SHA-1 of the case.",
	Assumptions: []string{
		"time bounds 10 s / 2 s must reproduce in isolation (rule T)",
		"a message in flight at an orderly end may be delivered before ErrStreamShutdown",
		"Server.Close is exercised only where a listener exists (byte link, unix sockets)",
	},
	Gen:            gen,
	Enum:           enum,
	EnumExhaustive: []string{"event x link/poll x block pattern x direct IO x pipelining on the fixed two-stream shape"},
	Run:            run,
}

func TestProperty(t *testing.T) { kit.Check(t, prop) }
