package c06

import (
	"bytes"
	"context"
	"fmt"
	"sync"
	"testing"
	"time"

	"github.com/hslam/rpc"
	"pgregory.net/rapid"
	"verif/harness/kit"
)

// CallSpec is one call of the mixed phase.
type CallSpec struct {
	Class    string `json:"class"` // ok | handler | unknown | decargs | encreply | encreq
	Form     string `json:"form"`  // go | call | ctx | roundtrip
	Size     int    `json:"size"`
	Salt     uint32 `json:"salt"`
	Method   int    `json:"method"`
	TextLen  int    `json:"text_len,omitempty"`
	TextKind string `json:"text_kind,omitempty"`
	Gated    bool   `json:"gated,omitempty"`
}

// Case is a mix of failing and succeeding calls followed by later traffic.
type Case struct {
	M          kit.Modes  `json:"modes"`
	Concurrent bool       `json:"concurrent"`
	Calls      []CallSpec `json:"calls"`
	Later      int        `json:"later"`
	LaterSalt  uint32     `json:"later_salt"`
}

func gen(t *rapid.T) Case {
	c := Case{}
	c.M = kit.Modes{
		Enc:           rapid.SampledFrom(kit.Encoders).Draw(t, "enc"),
		SrvPipelining: rapid.IntRange(0, 2).Draw(t, "srv_pipe") == 0,
		SrvDirect:     rapid.Bool().Draw(t, "srv_direct"),
		CliPipelining: rapid.IntRange(0, 3).Draw(t, "cli_pipe") == 0,
		CliDirect:     rapid.Bool().Draw(t, "cli_direct"),
		Link:          "frame",
	}
	kit.DrawBuffers(t, &c.M)
	c.Concurrent = rapid.IntRange(0, 3).Draw(t, "concurrent") > 0
	n := rapid.IntRange(2, 40).Draw(t, "ncalls")
	if rapid.Bool().Draw(t, "few") {
		n = rapid.IntRange(2, 8).Draw(t, "ncalls2")
	}
	gatedOK := c.Concurrent && !c.M.SrvPipelining && !c.M.CliPipelining
	for i := 0; i < n; i++ {
		s := CallSpec{
			Class:  rapid.SampledFrom([]string{"ok", "ok", "ok", "handler", "handler", "handler", "unknown", "decargs", "encreply", "encreq"}).Draw(t, "class"),
			Form:   rapid.SampledFrom([]string{"go", "call", "ctx", "roundtrip"}).Draw(t, "form"),
			Size:   rapid.SampledFrom([]int{16, 17, 40, 128, 129, 1000, 16384, 70000}).Draw(t, "size"),
			Salt:   rapid.Uint32().Draw(t, "salt"),
			Method: rapid.IntRange(0, 3).Draw(t, "method"),
		}
		if s.Class == "handler" {
			k := rapid.IntRange(0, 9).Draw(t, "text_class")
			switch {
			case k == 0:
				s.TextLen = 1
			case k <= 2:
				s.TextLen = rapid.SampledFrom([]int{127, 128, 129}).Draw(t, "text_len")
			case k == 3:
				s.TextLen = rapid.IntRange(10000, 40000).Draw(t, "text_len")
			case k == 4:
				s.TextLen = rapid.SampledFrom([]int{16383, 16384, 27}).Draw(t, "text_len")
			default:
				s.TextLen = rapid.IntRange(1, 200).Draw(t, "text_len")
			}
			s.TextKind = rapid.SampledFrom([]string{"ascii", "utf8", "utf8"}).Draw(t, "text_kind")
		}
		if gatedOK && (s.Class == "ok" || s.Class == "handler") {
			s.Gated = rapid.Bool().Draw(t, "gated")
		}
		c.Calls = append(c.Calls, s)
	}
	c.Later = rapid.IntRange(10, 60).Draw(t, "later")
	c.LaterSalt = rapid.Uint32().Draw(t, "later_salt")
	return c
}

const bound = 10 * time.Second

type issued struct {
	spec    CallSpec
	id      uint64
	args    []byte
	reply   []byte
	text    string // drawn handler text
	err     error  // the error value as returned
	errText string // deep copy at return time
	timeout bool
}

func run(c Case) kit.Outcome {
	if !c.M.Valid() || c.M.Link != "frame" || len(c.Calls) == 0 || len(c.Calls) > 200 || c.Later < 0 || c.Later > 500 {
		return kit.Outcome{Invalid: true}
	}
	for _, s := range c.Calls {
		if s.Size < kit.HeaderLen || s.Size > 1<<20 || s.Method < 0 || s.Method > 3 || s.TextLen < 0 || s.TextLen > 1<<20 {
			return kit.Outcome{Invalid: true}
		}
		if s.Class == "handler" && s.TextLen == 0 {
			return kit.Outcome{Invalid: true}
		}
		if s.Gated && (!c.Concurrent || c.M.SrvPipelining || c.M.CliPipelining || (s.Class != "ok" && s.Class != "handler")) {
			return kit.Outcome{Invalid: true}
		}
	}
	s, err := kit.NewSessionWith(c.M, kit.FailCodecFor("server"), kit.FailCodecFor("client"))
	if err != nil {
		return kit.Undecided("%v", err)
	}
	defer s.Close()
	// wire tap: sequence number of each request (by payload id), error text of each response
	var tmu sync.Mutex
	seqOf := map[uint64]uint64{}
	wireErr := map[uint64]string{}
	wireSeen := map[uint64]bool{}
	s.OnLink = func(l *kit.FrameLink) {
		l.C.SetTap(func(data []byte) {
			if h, err := kit.RefDecodeRequest(c.M.Enc, data); err == nil {
				if id, _, ok := kit.ParsePayload(h.Args); ok {
					tmu.Lock()
					seqOf[id] = h.Seq
					tmu.Unlock()
				}
			}
		})
		l.S.SetTap(func(data []byte) {
			if h, err := kit.RefDecodeResponse(c.M.Enc, data); err == nil {
				tmu.Lock()
				wireErr[h.Seq] = h.Error
				wireSeen[h.Seq] = true
				tmu.Unlock()
			}
		})
	}
	conn, err := s.Dial()
	if err != nil {
		return kit.Undecided("dial: %v", err)
	}
	calls := make([]*issued, len(c.Calls))
	var gated []uint64
	for i, sp := range c.Calls {
		is := &issued{spec: sp, id: uint64(i + 1)}
		switch sp.Class {
		case "ok", "unknown":
			dir := byte(kit.DirEcho)
			if sp.Gated {
				dir = kit.DirGate
			}
			is.args = kit.MakePayload(is.id, dir, sp.Salt, sp.Size)
		case "handler":
			is.text = kit.MakeText(sp.TextKind, sp.TextLen, sp.Salt)
			is.args = kit.MakeFailPayload(is.id, sp.Gated, is.text)
		case "decargs":
			is.args = kit.MakePayload(is.id, kit.DirFailDecReq, sp.Salt, sp.Size)
		case "encreply":
			is.args = kit.MakePayload(is.id, kit.DirFailEncRes, sp.Salt, sp.Size)
		case "encreq":
			is.args = kit.MakePayload(is.id, kit.DirFailEncReq, sp.Salt, sp.Size)
		default:
			return kit.Outcome{Invalid: true}
		}
		if sp.Gated {
			gated = append(gated, is.id)
		}
		is.reply = []byte("sentinel-" + fmt.Sprint(is.id))
		calls[i] = is
	}
	do := func(is *issued) {
		method := kit.Methods[is.spec.Method]
		if is.spec.Class == "unknown" {
			method = fmt.Sprintf("S.Nope%d", is.id)
		}
		resc := make(chan error, 1)
		go func() {
			switch is.spec.Form {
			case "go", "roundtrip":
				ch := make(chan *rpc.Call, 1)
				var call *rpc.Call
				if is.spec.Form == "go" {
					call = conn.Go(method, &is.args, &is.reply, ch)
				} else {
					call = conn.RoundTrip(&rpc.Call{ServiceMethod: method, Args: &is.args, Reply: &is.reply, Done: ch})
				}
				<-ch
				resc <- call.Error
			case "call":
				resc <- conn.Call(method, &is.args, &is.reply)
			default:
				resc <- conn.CallWithContext(context.Background(), method, &is.args, &is.reply)
			}
		}()
		select {
		case e := <-resc:
			is.err = e
			if e != nil {
				is.errText = string([]byte(e.Error())) // deep copy at observation time
			}
		case <-time.After(bound):
			is.timeout = true
		}
	}
	if c.Concurrent {
		var wg sync.WaitGroup
		for _, is := range calls {
			wg.Add(1)
			go func(is *issued) { defer wg.Done(); do(is) }(is)
		}
		if len(gated) > 0 {
			s.Env.WaitStartedIDs(gated, bound)
			time.Sleep(200 * time.Microsecond)
			for _, id := range gated {
				s.Env.Open(id)
			}
		}
		wg.Wait()
	} else {
		for _, is := range calls {
			do(is)
		}
	}
	for _, is := range calls {
		if is.timeout {
			return kit.Undecided("call %d (%s/%s) did not complete within %v", is.id, is.spec.Class, is.spec.Form, bound)
		}
	}
	// later traffic: successful calls with different contents and sizes
	sizes := []int{16, 24, 100, 128, 129, 500, 4000, 16384, 30000}
	for k := 0; k < c.Later; k++ {
		id := uint64(1000 + k)
		args := kit.MakePayload(id, kit.DirEcho, c.LaterSalt+uint32(k), sizes[(int(c.LaterSalt%1000)+k)%len(sizes)])
		var reply []byte
		resc := make(chan error, 1)
		go func() { resc <- conn.Call(kit.Methods[k%4], &args, &reply) }()
		select {
		case e := <-resc:
			if e != nil {
				return kit.Fail("later-call-failed", "well-formed call %d after the mixed phase failed: %v", k, e)
			}
			if !bytes.Equal(reply, kit.Transform(args)) {
				return kit.Fail("later-call-wrong-reply", "well-formed call %d after the mixed phase got a wrong reply", k)
			}
		case <-time.After(bound):
			return kit.Undecided("later call %d did not complete within %v", k, bound)
		}
	}
	// judge
	nFail, nOK := 0, 0
	encreq := false
	for _, is := range calls {
		shouldFail := is.spec.Class != "ok"
		if shouldFail {
			nFail++
		} else {
			nOK++
		}
		if !shouldFail {
			if is.err != nil {
				return kit.Fail("neighbour-failed", "call %d should succeed (its neighbours fail) but returned %q", is.id, is.errText)
			}
			if !bytes.Equal(is.reply, kit.Transform(is.args)) {
				return kit.Fail("neighbour-wrong-reply", "succeeding call %d got a wrong reply", is.id)
			}
			continue
		}
		if is.err == nil {
			return kit.Fail("failure-lost", "call %d (%s) must fail but returned nil", is.id, is.spec.Class)
		}
		if string(is.reply) != "sentinel-"+fmt.Sprint(is.id) {
			return kit.Fail("reply-modified", "reply object of failing call %d (%s) was modified: %s", is.id, is.spec.Class, kit.Brief(is.reply))
		}
		now := is.err.Error()
		if now != is.errText {
			return kit.Fail("error-text-changed", "error text of call %d (%s) read %s when the call returned and reads %s after %d later calls", is.id, is.spec.Class, kit.BriefS(is.errText), kit.BriefS(now), c.Later)
		}
		if is.spec.Class == "encreq" {
			encreq = true
			if is.errText != kit.CodecErrText("encode request", is.id) {
				return kit.Fail("wrong-error-text", "call %d whose request cannot be encoded failed with %s", is.id, kit.BriefS(is.errText))
			}
			continue
		}
		tmu.Lock()
		seq, okSeq := seqOf[is.id]
		wtxt, seen := wireErr[seq], wireSeen[seq]
		tmu.Unlock()
		if !okSeq || !seen {
			return kit.Undecided("wire tap has no response for call %d", is.id)
		}
		if is.errText != wtxt {
			return kit.Fail("wrong-error-text", "call %d (%s) failed with %s but the server-side error text on the wire is %s", is.id, is.spec.Class, kit.BriefS(is.errText), kit.BriefS(wtxt))
		}
		if is.spec.Class == "handler" && is.errText != is.text {
			return kit.Fail("wrong-error-text", "call %d failed with %s but the handler returned %s", is.id, kit.BriefS(is.errText), kit.BriefS(is.text))
		}
	}
	if n := conn.NumCalls(); encreq && n != 0 {
		return kit.Fail("encode-failure-residue", "NumCalls() == %d after every call (one of them with a request that could not be encoded) completed", n)
	}
	out := kit.Outcome{Counters: map[string]int{"calls": len(calls), "failing": nFail}}
	if nFail > 0 && nOK > 0 && c.Concurrent && c.Later >= 10 {
		out.Nontrivial = true
	}
	out.Classes = append(out.Classes, "enc="+c.M.Enc)
	if encreq {
		out.Classes = append(out.Classes, "client-encode-failure")
	}
	if len(gated) > 0 {
		out.Classes = append(out.Classes, "gated-in-flight")
	}
	return out
}

var prop = kit.Property[Case]{
	ID:    "C06",
	Level: "exploration",
	Rule:  "rapid-generated mixes of 2-40 calls (ok, handler error with drawn text of 1 B - 40 KB valid UTF-8, unknown method, undecodable arguments, unencodable reply, request that cannot be encoded on the client) x call forms x 4 handler shapes on one real Conn to a real Server (4 header encoders x modes) over a frame link with a wire tap decoding every response header with the reference codec; concurrent mixes gate ok/handler-error handlers so that failing and succeeding calls are in flight together; then 10-60 later successful calls of other sizes. Error texts are deep-copied at return time. Non-trivial: >= 1 failing and >= 1 succeeding call issued concurrently, followed by >= 10 later calls; distinct by SHA-1 of the case.",
	Assumptions: []string{
		"the wire tap (reference decoder) states the server-side error text",
		"a body codec that fails on demand (harness/kit/codecs.go) stands for undecodable arguments / unencodable replies / unencodable requests",
	},
	Gen: gen,
	Run: run,
}

func TestProperty(t *testing.T) { kit.Check(t, prop) }
