package c05

import (
	"fmt"
	"sync"
	"testing"
	"time"

	"github.com/hslam/rpc"
	"pgregory.net/rapid"
	"verif/harness/kit"
)

// Req is one request.
type Req struct {
	Kind   string `json:"kind"` // ok | fail | unknown | decargs | encreply | encreq (client mode only)
	Size   int    `json:"size"`
	Salt   uint32 `json:"salt"`
	Method int    `json:"method"`
}

// ConnSpec is the traffic of one connection.
type ConnSpec struct {
	Reqs      []Req `json:"reqs"`
	Batches   []int `json:"batches,omitempty"` // server mode: frames released to the server at once (cyclic)
	GateFirst bool  `json:"gate_first,omitempty"`
}

// Case is either a server-side case (scripted clients -> pipelining server) or a client-side case
// (real pipelined Conn -> pipelining server).
type Case struct {
	Mode      string     `json:"mode"` // server | client
	Enc       string     `json:"enc"`
	SrvDirect bool       `json:"srv_direct"`
	CliDirect bool       `json:"cli_direct,omitempty"`
	Unix      bool       `json:"unix,omitempty"` // server mode: real unix sockets instead of frame links
	Poll      bool       `json:"poll,omitempty"` // server mode over unix sockets: poll-mode server
	Hold      int        `json:"hold,omitempty"` // ... idle connections opened first and kept (more than 16: the tested ones share poll workers)
	Conns     []ConnSpec `json:"conns"`
}

func genReq(t *rapid.T, client bool) Req {
	kinds := []string{"ok", "ok", "ok", "ok", "fail", "fail", "unknown", "decargs", "encreply"}
	r := Req{
		Kind:   rapid.SampledFrom(kinds).Draw(t, "kind"),
		Salt:   rapid.Uint32().Draw(t, "salt"),
		Method: rapid.IntRange(0, 3).Draw(t, "method"),
	}
	if client && rapid.IntRange(0, 19).Draw(t, "encreq") == 0 {
		r.Kind = "encreq"
	}
	k := rapid.IntRange(0, 9).Draw(t, "size_class")
	switch {
	case k <= 5:
		r.Size = rapid.IntRange(16, 200).Draw(t, "size")
	case k <= 7:
		r.Size = rapid.SampledFrom([]int{126, 127, 128, 129, 16383, 16384}).Draw(t, "size")
	case k == 8:
		r.Size = rapid.IntRange(16, 70000).Draw(t, "size")
	default:
		r.Size = rapid.SampledFrom([]int{65535, 65536, 65537}).Draw(t, "size")
	}
	return r
}

func gen(t *rapid.T) Case {
	c := Case{
		Enc:       rapid.SampledFrom(kit.Encoders).Draw(t, "enc"),
		SrvDirect: rapid.Bool().Draw(t, "srv_direct"),
	}
	if rapid.Bool().Draw(t, "client_mode") {
		c.Mode = "client"
		c.CliDirect = rapid.Bool().Draw(t, "cli_direct")
		n := rapid.IntRange(2, 300).Draw(t, "n")
		if rapid.Bool().Draw(t, "few") {
			n = rapid.IntRange(2, 12).Draw(t, "n2")
		}
		var cs ConnSpec
		for i := 0; i < n; i++ {
			cs.Reqs = append(cs.Reqs, genReq(t, true))
		}
		c.Conns = []ConnSpec{cs}
		return c
	}
	c.Mode = "server"
	if rapid.IntRange(0, 2).Draw(t, "unix") == 0 {
		c.Unix = true
		c.Poll = rapid.Bool().Draw(t, "poll")
		if c.Poll && rapid.Bool().Draw(t, "hold") {
			c.Hold = rapid.IntRange(16, 22).Draw(t, "held")
		}
	}
	nc := rapid.IntRange(1, 4).Draw(t, "conns")
	for i := 0; i < nc; i++ {
		var cs ConnSpec
		n := rapid.IntRange(2, 300).Draw(t, "n")
		if rapid.IntRange(0, 2).Draw(t, "few") > 0 {
			n = rapid.IntRange(2, 20).Draw(t, "n2")
		}
		for k := 0; k < n; k++ {
			cs.Reqs = append(cs.Reqs, genReq(t, false))
		}
		nb := rapid.IntRange(1, 4).Draw(t, "nbatches")
		for k := 0; k < nb; k++ {
			cs.Batches = append(cs.Batches, rapid.SampledFrom([]int{1, 1, 2, 3, 8, 64}).Draw(t, "batch"))
		}
		if nc > 1 && i == 0 {
			cs.GateFirst = rapid.Bool().Draw(t, "gate_first")
		}
		c.Conns = append(c.Conns, cs)
	}
	return c
}

const bound = 20 * time.Second

func payload(id uint64, r Req, gated bool) ([]byte, string) {
	method := kit.Methods[r.Method%4]
	switch r.Kind {
	case "ok":
		dir := byte(kit.DirEcho)
		if gated {
			dir = kit.DirGate
		}
		return kit.MakePayload(id, dir, r.Salt, r.Size), method
	case "fail":
		n := r.Size - kit.HeaderLen
		if n < 1 {
			n = 1
		}
		if n > 300 {
			n = 300
		}
		return kit.MakeFailPayload(id, gated, kit.MakeText("ascii", n, r.Salt)), method
	case "unknown":
		return kit.MakePayload(id, kit.DirEcho, r.Salt, r.Size), fmt.Sprintf("S.Missing%d", id&0xffff)
	case "decargs":
		return kit.MakePayload(id, kit.DirFailDecReq, r.Salt, r.Size), method
	case "encreply":
		return kit.MakePayload(id, kit.DirFailEncRes, r.Salt, r.Size), method
	case "encreq":
		return kit.MakePayload(id, kit.DirFailEncReq, r.Salt, r.Size), method
	}
	return nil, ""
}

func valid(c Case) bool {
	if c.Enc != "default" && kit.HeaderEncoder(c.Enc) == nil {
		return false
	}
	if len(c.Conns) == 0 || len(c.Conns) > 8 {
		return false
	}
	for _, cs := range c.Conns {
		if len(cs.Reqs) == 0 || len(cs.Reqs) > 2000 {
			return false
		}
		for _, r := range cs.Reqs {
			if r.Size < kit.HeaderLen || r.Size > 1<<20 {
				return false
			}
			switch r.Kind {
			case "ok", "fail", "unknown", "decargs", "encreply":
			case "encreq":
				if c.Mode != "client" {
					return false
				}
			default:
				return false
			}
		}
		for _, b := range cs.Batches {
			if b < 1 {
				return false
			}
		}
	}
	if c.Poll && !c.Unix || (c.Unix && c.Mode != "server") || c.Hold < 0 || c.Hold > 64 || (c.Hold > 0 && !c.Poll) {
		return false
	}
	return c.Mode == "server" || (c.Mode == "client" && len(c.Conns) == 1)
}

func run(c Case) kit.Outcome {
	if !valid(c) {
		return kit.Outcome{Invalid: true}
	}
	if c.Mode == "client" {
		return runClient(c)
	}
	return runServer(c)
}

// runServer: scripted clients write request frames (batched by the harness) to a pipelining
// server; the execution log and the response order are judged.
func runServer(c Case) kit.Outcome {
	type cstate struct {
		link *kit.FrameLink
		cli  *kit.ScriptClient
		done chan struct{}
		ids  []uint64
		reqs []kit.ReqHeader
	}
	conns := make([]*cstate, len(c.Conns))
	var env *kit.Env
	gatedConn := -1
	if c.Unix {
		// real unix sockets (optionally a poll-mode server): requests are written in batches of
		// frames per write call
		m := kit.Modes{Enc: c.Enc, SrvPipelining: true, SrvDirect: c.SrvDirect, Link: "unix", Poll: c.Poll}
		sess, err := kit.NewSessionWith(m, kit.FailCodecFor("server"), kit.FailCodecFor("client"))
		if err != nil {
			return kit.Undecided("%v", err)
		}
		env = sess.Env
		defer sess.Close()
		defer func() {
			env.OpenAll()
			for _, cs := range conns {
				if cs != nil && cs.cli != nil {
					cs.cli.Close()
				}
			}
		}()
		for h := 0; h < c.Hold; h++ {
			hc, err := kit.DialRaw("unix", sess.Addr)
			if err != nil {
				return kit.Undecided("dial: %v", err)
			}
			defer hc.Close()
		}
		for i, spec := range c.Conns {
			rc, err := kit.DialRaw("unix", sess.Addr)
			if err != nil {
				return kit.Undecided("dial: %v", err)
			}
			st := &cstate{cli: kit.NewScriptClientOn(rc, c.Enc, env.Tick)}
			for k, r := range spec.Reqs {
				id := uint64(i+1)<<32 | uint64(k+1)
				args, method := payload(id, r, spec.GateFirst && k == 0 && r.Kind == "ok")
				st.ids = append(st.ids, id)
				st.reqs = append(st.reqs, kit.ReqHeader{Seq: uint64(k), Method: method, Args: args})
			}
			conns[i] = st
			if spec.GateFirst && spec.Reqs[0].Kind == "ok" {
				gatedConn = i
			}
		}
		var swg sync.WaitGroup
		for i, st := range conns {
			swg.Add(1)
			go func(i int, st *cstate) {
				defer swg.Done()
				spec := c.Conns[i]
				left, bi, off := len(st.reqs), 0, 0
				for left > 0 {
					b := 1
					if len(spec.Batches) > 0 {
						b = spec.Batches[bi%len(spec.Batches)]
						bi++
					}
					if b > left {
						b = left
					}
					st.cli.SendBatch(st.reqs[off : off+b])
					off += b
					left -= b
				}
			}(i, st)
		}
		swg.Wait()
	} else {
		o, e, g := setupFrames(c, func(i int, link *kit.FrameLink, cli *kit.ScriptClient, done chan struct{}, ids []uint64, reqs []kit.ReqHeader) {
			conns[i] = &cstate{link: link, cli: cli, done: done, ids: ids, reqs: reqs}
		})
		if o != nil {
			return *o
		}
		env, gatedConn = e, g
		defer func() {
			env.OpenAll()
			for _, cs := range conns {
				if cs != nil {
					cs.link.C.Close()
				}
			}
			for _, cs := range conns {
				if cs != nil {
					select {
					case <-cs.done:
					case <-time.After(5 * time.Second):
					}
				}
			}
		}()
	}
	independent := true
	for i, st := range conns {
		if i == gatedConn {
			continue
		}
		if !st.cli.WaitResponses(len(st.reqs), bound) {
			if gatedConn >= 0 {
				independent = false
			} else {
				return kit.Undecided("connection %d: only %d of %d responses arrived within %v", i, len(st.cli.Responses()), len(st.reqs), bound)
			}
		}
	}
	if gatedConn >= 0 {
		if !independent {
			o := kit.Fail("connections-not-independent", "with the first request of connection %d blocked in its handler, another connection did not get all its responses within %v", gatedConn, bound)
			o.Timing = true
			return o
		}
		env.Open(conns[gatedConn].ids[0])
		st := conns[gatedConn]
		if !st.cli.WaitResponses(len(st.reqs), bound) {
			return kit.Undecided("gated connection %d: only %d of %d responses arrived within %v after its gate was opened", gatedConn, len(st.cli.Responses()), len(st.reqs), bound)
		}
	}
	// judge per connection
	log := env.Log()
	total, failingNotLast := 0, false
	maxBatch := 1
	for i, st := range conns {
		spec := c.Conns[i]
		total += len(st.reqs)
		for _, b := range spec.Batches {
			if b > maxBatch {
				maxBatch = b
			}
		}
		for k, r := range spec.Reqs {
			if r.Kind != "ok" && k < len(spec.Reqs)-1 {
				failingNotLast = true
			}
		}
		// responses in request order
		resp := st.cli.Responses()
		if len(resp) != len(st.reqs) {
			return kit.Fail("response-count", "connection %d: %d responses for %d requests", i, len(resp), len(st.reqs))
		}
		for k, r := range resp {
			if r.DecErr != "" {
				return kit.Undecided("connection %d: response %d undecodable: %s", i, k, r.DecErr)
			}
			if r.Seq != uint64(k) {
				return kit.Fail("response-order", "connection %d: response %d on the wire answers request %d; responses must be written in request order (server pipelining, direct=%v)", i, k, r.Seq, c.SrvDirect)
			}
		}
		// executions: one at a time, in send order
		var mine []kit.Exec
		for _, e := range log {
			if e.ID>>32 == uint64(i+1) {
				mine = append(mine, e)
			}
		}
		var expect []uint64
		for k, r := range spec.Reqs {
			if r.Kind == "ok" || r.Kind == "fail" || r.Kind == "encreply" {
				expect = append(expect, st.ids[k])
			}
		}
		if len(mine) != len(expect) {
			return kit.Fail("execution-count", "connection %d: %d handler executions logged, %d requests reach a handler", i, len(mine), len(expect))
		}
		for k, e := range mine { // the log is in start order
			if e.ID != expect[k] {
				return kit.Fail("execution-order", "connection %d: execution %d is request %d, expected request %d (requests must execute in the order sent)", i, k, e.ID&0xffffffff, expect[k]&0xffffffff)
			}
			if k > 0 && mine[k-1].End > e.Start {
				return kit.Fail("execution-overlap", "connection %d: request %d started (tick %d) before request %d finished (tick %d)", i, e.ID&0xffffffff, e.Start, mine[k-1].ID&0xffffffff, mine[k-1].End)
			}
		}
	}
	out := kit.Outcome{Counters: map[string]int{"requests": total}, Classes: []string{"server-side", "enc=" + c.Enc}}
	if c.Unix {
		out.Classes = append(out.Classes, "unix-sockets")
	}
	if c.Poll {
		out.Classes = append(out.Classes, "poll")
	}
	if c.Hold >= 16 {
		out.Classes = append(out.Classes, "poll-shared-workers")
	}
	if (total >= 3 && failingNotLast) || maxBatch > 1 || len(conns) > 1 {
		out.Nontrivial = true
	}
	if gatedConn >= 0 {
		out.Classes = append(out.Classes, "independence-checked")
	}
	if maxBatch > 1 {
		out.Classes = append(out.Classes, "batched")
	}
	return out
}

// setupFrames builds the frame-link variant: every connection's frames are written, then released
// to the server in drawn batches.
func setupFrames(c Case, reg func(i int, link *kit.FrameLink, cli *kit.ScriptClient, done chan struct{}, ids []uint64, reqs []kit.ReqHeader)) (*kit.Outcome, *kit.Env, int) {
	env := kit.NewEnv()
	srv := kit.NewServer(env, true, c.SrvDirect)
	type fstate struct {
		link *kit.FrameLink
		cli  *kit.ScriptClient
		reqs []kit.ReqHeader
	}
	fs := make([]*fstate, len(c.Conns))
	gatedConn := -1
	for i, spec := range c.Conns {
		link := kit.NewFrameLink()
		link.S.SetHold(true)
		done := kit.ServeLinkWith(srv, link, c.Enc, c.SrvDirect, &kit.FailCodec{Side: "server"})
		cli := kit.NewScriptClient(link, c.Enc, env.Tick)
		var ids []uint64
		var reqs []kit.ReqHeader
		for k, r := range spec.Reqs {
			id := uint64(i+1)<<32 | uint64(k+1)
			args, method := payload(id, r, spec.GateFirst && k == 0 && r.Kind == "ok")
			ids = append(ids, id)
			reqs = append(reqs, kit.ReqHeader{Seq: uint64(k), Method: method, Args: args})
		}
		fs[i] = &fstate{link: link, cli: cli, reqs: reqs}
		reg(i, link, cli, done, ids, reqs)
		if spec.GateFirst && spec.Reqs[0].Kind == "ok" {
			gatedConn = i
		}
		for _, rq := range reqs {
			cli.Send(rq)
		}
	}
	for i := range fs {
		go func(i int) {
			st, spec := fs[i], c.Conns[i]
			left, bi := len(st.reqs), 0
			for left > 0 {
				b := 1
				if len(spec.Batches) > 0 {
					b = spec.Batches[bi%len(spec.Batches)]
					bi++
				}
				if b > left {
					b = left
				}
				st.link.S.Release(b)
				left -= b
				if !st.link.S.WaitReaderIdle(bound) {
					return
				}
			}
		}(i)
	}
	return nil, env, gatedConn
}

// runClient: one goroutine issues Go calls on one shared Done channel over a pipelined real
// Conn to a pipelining server; completions carried by a response must arrive in issue order.
func runClient(c Case) kit.Outcome {
	m := kit.Modes{Enc: c.Enc, SrvPipelining: true, SrvDirect: c.SrvDirect, CliPipelining: true, CliDirect: c.CliDirect, Link: "frame"}
	s, err := kit.NewSessionWith(m, kit.FailCodecFor("server"), kit.FailCodecFor("client"))
	if err != nil {
		return kit.Undecided("%v", err)
	}
	defer s.Close()
	conn, err := s.Dial()
	if err != nil {
		return kit.Undecided("dial: %v", err)
	}
	reqs := c.Conns[0].Reqs
	n := len(reqs)
	done := make(chan *rpc.Call, n+8)
	calls := make([]*rpc.Call, n)
	index := map[*rpc.Call]int{}
	args := make([][]byte, n)
	replies := make([][]byte, n)
	for i, r := range reqs {
		var method string
		args[i], method = payload(uint64(i+1), r, false)
		calls[i] = conn.Go(method, &args[i], &replies[i], done)
		index[calls[i]] = i
	}
	var arrival []int
	timeout := time.After(bound)
	for len(arrival) < n {
		select {
		case cl := <-done:
			i, ok := index[cl]
			if !ok {
				return kit.Fail("stray-completion", "the shared Done channel received a Call that was not issued")
			}
			arrival = append(arrival, i)
		case <-timeout:
			return kit.Undecided("only %d of %d pipelined calls completed within %v", len(arrival), n, bound)
		}
	}
	// completions carried by a response (every class here except a client-side encode failure)
	var byResponse []int
	local := 0
	failingNotLast := false
	for _, i := range arrival {
		if reqs[i].Kind == "encreq" {
			local++
			continue
		}
		byResponse = append(byResponse, i)
	}
	for i, r := range reqs {
		if r.Kind != "ok" && i < n-1 {
			failingNotLast = true
		}
		want := r.Kind != "ok"
		if (calls[i].Error != nil) != want {
			return kit.Undecided("call %d (%s) completed with error %v", i, r.Kind, calls[i].Error)
		}
	}
	for k := 1; k < len(byResponse); k++ {
		if byResponse[k] < byResponse[k-1] {
			o := kit.Fail("completion-order", "pipelined asynchronous calls were signalled out of issue order on the shared Done channel: call %d (%s) arrived before call %d (%s); arrival order %v", byResponse[k-1], reqs[byResponse[k-1]].Kind, byResponse[k], reqs[byResponse[k]].Kind, head(arrival, 40))
			o.Sig = "client-pipelining"
			return o
		}
	}
	out := kit.Outcome{Counters: map[string]int{"requests": n, "local_failures": local}, Classes: []string{"client-side", "enc=" + c.Enc}}
	if n >= 3 && failingNotLast {
		out.Nontrivial = true
	}
	return out
}

func head(a []int, n int) []int {
	if len(a) > n {
		return a[:n]
	}
	return a
}

var prop = kit.Property[Case]{
	ID:    "C05",
	Level: "exploration",
	Rule:  "rapid-generated cases of two kinds. Server side: 1-4 scripted client connections each writing 2-300 request frames (ok / failing handler / unknown method / undecodable args / unencodable reply; sizes 16 B - 70 KB incl. varint and 64 KiB boundaries; 4 handler shapes) delivered to a pipelining real Server in drawn batches of 1..64 frames - over frame links (held and released) or over real unix sockets with one write call per batch, against non-poll and poll-mode servers (direct or asynchronous IO, 4 header encoders); oracle: handler executions per connection are in send order with disjoint [start,end] tick intervals, response frames appear in request order, and a connection whose first handler is gated does not delay the others. Client side: one goroutine issues 2-300 Go calls of those classes on one shared Done channel over a real Conn with SetPipelining(true) to a pipelining Server; oracle: arrival order on Done == issue order for every completion carried by a response. Non-trivial: >= 3 requests with a failing one that is not last, or a batch > 1, or > 1 connection; distinct by SHA-1 of the case.",
	Assumptions: []string{
		"pings are not 'requests executed by a handler' and are not part of the ordering oracle",
		"calls that fail locally without a response (request cannot be encoded, connection lost) are recorded, their relative order is not asserted (DESIGN.md C05 scope note)",
		"one third of the server-side cases run over real unix sockets (half of them against a poll-mode server), the rest over frame links",
	},
	Gen: gen,
	Run: run,
}

func TestProperty(t *testing.T) { kit.Check(t, prop) }
