package c19

import (
	"context"
	"fmt"
	"sync"
	"testing"
	"time"

	"github.com/hslam/rpc"
	"pgregory.net/rapid"
	"verif/harness/kit"
)

// CallSpec describes one call of a case.
type CallSpec struct {
	Form     string `json:"form"`   // ctx | go | call
	Cancel   string `json:"cancel"` // never | cancel | deadline   (ctx only)
	Resp     string `json:"resp"`   // before | late | never | end | racing (response delivered, cancel while it is being decoded)
	RaceUS   int    `json:"race_us,omitempty"`
	ReplyLen int    `json:"reply_len"`
	Salt     uint32 `json:"salt"`
	BufCap   int    `json:"buf_cap"` // -1: no context buffer
	BufDelta int    `json:"buf_delta,omitempty"`
}

// Case is a set of calls sharing one connection to a scripted server.
type Case struct {
	Enc           string     `json:"enc"`
	DirectIO      bool       `json:"direct_io"`
	Calls         []CallSpec `json:"calls"`
	DecodeDelayUS int        `json:"decode_delay_us,omitempty"` // the client's body codec takes this long to decode a reply
	FollowUps     int        `json:"follow_ups,omitempty"`      // blocking calls issued right after the racing cancellations
}

// slowCodec is the bytes codec with a slow Unmarshal (a large or expensive reply).
type slowCodec struct {
	rpc.BYTESCodec
	delay time.Duration
}

func (c *slowCodec) Unmarshal(data []byte, v interface{}) error {
	if c.delay > 0 {
		time.Sleep(c.delay)
	}
	return c.BYTESCodec.Unmarshal(data, v)
}

func gen(t *rapid.T) Case {
	c := Case{Enc: rapid.SampledFrom(kit.Encoders).Draw(t, "enc"), DirectIO: rapid.Bool().Draw(t, "direct_io")}
	n := rapid.IntRange(1, 10).Draw(t, "ncalls")
	for i := 0; i < n; i++ {
		s := CallSpec{BufCap: -1}
		s.Form = rapid.SampledFrom([]string{"ctx", "ctx", "ctx", "go", "call"}).Draw(t, "form")
		s.ReplyLen = rapid.SampledFrom([]int{0, 1, 17, 32, 200, 4096, 70000}).Draw(t, "reply_len")
		if rapid.Bool().Draw(t, "rand_len") {
			s.ReplyLen = rapid.IntRange(0, 300).Draw(t, "reply_len2")
		}
		s.Salt = rapid.Uint32().Draw(t, "salt")
		if s.Form == "ctx" {
			s.Cancel = rapid.SampledFrom([]string{"never", "cancel", "cancel", "deadline"}).Draw(t, "cancel")
			s.Resp = rapid.SampledFrom([]string{"before", "late", "late", "never", "end", "racing"}).Draw(t, "resp")
			if s.Resp == "racing" {
				s.Cancel = "cancel"
				s.RaceUS = rapid.SampledFrom([]int{0, 100, 500, 1500}).Draw(t, "race_us")
			}
			if rapid.IntRange(0, 2).Draw(t, "with_buf") > 0 {
				k := rapid.IntRange(0, 5).Draw(t, "buf_class")
				switch k {
				case 0:
					s.BufCap = 0
				case 1:
					s.BufCap = s.ReplyLen - 1
				case 2:
					s.BufCap = s.ReplyLen
				case 3:
					s.BufCap = s.ReplyLen + 1
				case 4:
					s.BufCap = 4 * s.ReplyLen
				default:
					s.BufCap = rapid.IntRange(0, 400).Draw(t, "buf_cap")
				}
				if s.BufCap < 0 {
					s.BufCap = 0
				}
			}
		} else {
			s.Cancel = "never"
			s.Resp = rapid.SampledFrom([]string{"before", "end", "end", "never"}).Draw(t, "resp")
		}
		c.Calls = append(c.Calls, s)
	}
	c.DecodeDelayUS = rapid.SampledFrom([]int{0, 0, 1000, 3000}).Draw(t, "decode_delay_us")
	c.FollowUps = rapid.IntRange(0, 3).Draw(t, "follow_ups")
	return c
}

const guard = 0xA5

type live struct {
	spec     CallSpec
	id       uint64
	args     []byte
	reply    []byte
	want     []byte
	buf      []byte
	ctx      context.Context
	cancel   context.CancelFunc
	deadline time.Time
	seq      uint64
	seqOK    bool
	ret      chan error // blocking forms
	retErr   error
	retAt    time.Time
	returned bool
	call     *rpc.Call // go
	done     chan *rpc.Call
	cancelAt time.Time
	answered bool
	answerAt time.Time
}

const bound = 10 * time.Second
const prompt = 2 * time.Second

func timing(clause, format string, a ...interface{}) kit.Outcome {
	o := kit.Fail(clause, format, a...)
	o.Timing = true
	return o
}

func run(c Case) kit.Outcome {
	if kit.HeaderEncoder(c.Enc) == nil && c.Enc != "default" {
		return kit.Outcome{Invalid: true}
	}
	if len(c.Calls) == 0 || len(c.Calls) > 40 {
		return kit.Outcome{Invalid: true}
	}
	for _, s := range c.Calls {
		if s.ReplyLen < 0 || s.ReplyLen > 1<<20 || s.BufCap > 8<<20 {
			return kit.Outcome{Invalid: true}
		}
		switch s.Form {
		case "ctx", "go", "call":
		default:
			return kit.Outcome{Invalid: true}
		}
		switch s.Resp {
		case "before", "late", "never", "end":
		case "racing":
			if s.Form != "ctx" || s.Cancel != "cancel" || s.RaceUS < 0 || s.RaceUS > 100000 {
				return kit.Outcome{Invalid: true}
			}
		default:
			return kit.Outcome{Invalid: true}
		}
	}
	if c.DecodeDelayUS < 0 || c.DecodeDelayUS > 100000 || c.FollowUps < 0 || c.FollowUps > 16 {
		return kit.Outcome{Invalid: true}
	}
	link := kit.NewFrameLink()
	srv := kit.NewScriptServer(link, c.Enc)
	conn := rpc.NewConnWithCodec(rpc.NewClientCodec(&slowCodec{delay: time.Duration(c.DecodeDelayUS) * time.Microsecond}, kit.HeaderEncoder(c.Enc), link.C, 0))
	conn.SetDirectIO(c.DirectIO)
	defer conn.Close()
	var hist []string
	var hmu sync.Mutex
	h := func(format string, a ...interface{}) {
		hmu.Lock()
		hist = append(hist, fmt.Sprintf(format, a...))
		hmu.Unlock()
	}
	fail := func(o kit.Outcome) kit.Outcome { o.History = hist; return o }

	calls := make([]*live, len(c.Calls))
	for i, s := range c.Calls {
		l := &live{spec: s, id: uint64(i + 1)}
		l.args = kit.MakePayload(l.id, kit.DirEcho, s.Salt, 24)
		l.want = make([]byte, s.ReplyLen)
		kit.FillBytes(l.want, l.id, s.Salt)
		l.reply = []byte("sentinel")
		calls[i] = l
		switch s.Form {
		case "ctx":
			base := context.Background()
			if s.BufCap >= 0 {
				l.buf = make([]byte, s.BufCap)
				for j := range l.buf {
					l.buf[j] = guard
				}
				base = context.WithValue(base, rpc.BufferContextKey, l.buf[:0])
			}
			switch s.Cancel {
			case "deadline":
				l.deadline = time.Now().Add(40 * time.Millisecond)
				l.ctx, l.cancel = context.WithDeadline(base, l.deadline)
			default:
				l.ctx, l.cancel = context.WithCancel(base)
			}
			l.ret = make(chan error, 1)
			go func() {
				err := conn.CallWithContext(l.ctx, "S.Echo", &l.args, &l.reply)
				l.retAt = time.Now()
				l.ret <- err
			}()
		case "call":
			l.ret = make(chan error, 1)
			go func() {
				err := conn.Call("S.Echo", &l.args, &l.reply)
				l.retAt = time.Now()
				l.ret <- err
			}()
		case "go":
			l.done = make(chan *rpc.Call, 4)
			l.call = conn.Go("S.Echo", &l.args, &l.reply, l.done)
		}
	}
	defer func() {
		for _, l := range calls {
			if l.cancel != nil {
				l.cancel()
			}
		}
	}()
	if !srv.WaitRequests(len(calls), bound) {
		return fail(kit.Undecided("only %d of %d requests reached the scripted server", len(srv.Requests()), len(calls)))
	}
	for _, r := range srv.Requests() {
		if id, _, ok := kit.ParsePayload(r.Args); ok && id >= 1 && int(id) <= len(calls) {
			calls[id-1].seq, calls[id-1].seqOK = r.Seq, true
		}
	}
	for _, l := range calls {
		if !l.seqOK {
			return fail(kit.Undecided("request of call %d not found on the wire", l.id))
		}
	}
	respond := func(l *live, phase string) {
		l.answered = true
		l.answerAt = time.Now()
		srv.Respond(kit.ResHeader{Seq: l.seq, Reply: l.want})
		h("%s: response for call %d (%s, seq %d, %d bytes)", phase, l.id, l.spec.Form, l.seq, len(l.want))
	}
	await := func(l *live, d time.Duration) bool {
		if l.returned {
			return true
		}
		if l.ret != nil {
			select {
			case err := <-l.ret:
				l.retErr, l.returned = err, true
				return true
			case <-time.After(d):
				return false
			}
		}
		select {
		case cl := <-l.done:
			l.retErr, l.returned = cl.Error, true
			l.retAt = time.Now()
			return true
		case <-time.After(d):
			return false
		}
	}
	// phase 1: responses that arrive first
	for _, l := range calls {
		if l.spec.Resp == "before" {
			respond(l, "phase1")
		}
	}
	for _, l := range calls {
		if l.spec.Resp == "before" {
			if !await(l, bound) {
				return fail(timing("answered-not-returned", "call %d (%s) did not return within %v although its response was delivered", l.id, l.spec.Form, bound))
			}
		}
	}
	// phase 1b: responses racing their call's cancellation (delivered, then cancelled while the
	// reply is being decoded), immediately followed by fresh blocking calls
	racing := 0
	for _, l := range calls {
		if l.spec.Resp != "racing" {
			continue
		}
		racing++
		respond(l, "phase1b(racing)")
		if l.spec.RaceUS > 0 {
			time.Sleep(time.Duration(l.spec.RaceUS) * time.Microsecond)
		}
		l.cancelAt = time.Now()
		l.cancel()
		if !await(l, prompt) {
			return fail(timing("cancel-not-prompt", "CallWithContext %d did not return within %v although both its response was delivered and its context cancelled", l.id, prompt))
		}
		for k := 0; k < c.FollowUps; k++ {
			fid := uint64(1000 + int(l.id)*20 + k)
			fargs := kit.MakePayload(fid, kit.DirEcho, 5, 24)
			fwant := make([]byte, 33)
			kit.FillBytes(fwant, fid, 5)
			freply := []byte("sentinel")
			nreq := len(srv.Requests())
			fc := make(chan error, 1)
			go func() { fc <- conn.Call("S.Echo", &fargs, &freply) }()
			if !srv.WaitRequests(nreq+1, bound) {
				return fail(kit.Undecided("follow-up request did not reach the scripted server"))
			}
			reqs := srv.Requests()
			// answer a little later, so that a premature completion is visible
			time.Sleep(time.Duration(c.DecodeDelayUS+300) * time.Microsecond)
			select {
			case err := <-fc:
				return fail(kit.Fail("sibling-completed", "a blocking call started right after CallWithContext %d was cancelled (its response was being decoded) returned (%v, reply %s) before its own response was sent", l.id, err, kit.Brief(freply)))
			default:
			}
			srv.Respond(kit.ResHeader{Seq: reqs[len(reqs)-1].Seq, Reply: fwant})
			select {
			case err := <-fc:
				if err != nil || string(freply) != string(fwant) {
					return fail(kit.Fail("wrong-reply", "a blocking call started right after a cancelled CallWithContext returned (%v) with reply %s instead of its own", err, kit.Brief(freply)))
				}
			case <-time.After(bound):
				return fail(timing("answered-not-returned", "a follow-up call did not return within %v although its response was delivered", bound))
			}
		}
	}
	// phase 2: cancellations / deadlines
	for _, l := range calls {
		if l.spec.Form != "ctx" || l.spec.Cancel == "never" || l.spec.Resp == "racing" {
			continue
		}
		if l.spec.Cancel == "cancel" {
			l.cancelAt = time.Now()
			l.cancel()
			h("phase2: cancel call %d", l.id)
		} else {
			if d := time.Until(l.deadline); d > 0 {
				time.Sleep(d)
			}
			l.cancelAt = l.deadline
			h("phase2: deadline of call %d passed", l.id)
		}
	}
	for _, l := range calls {
		if l.spec.Form == "ctx" && l.spec.Cancel != "never" && l.spec.Resp != "before" && l.spec.Resp != "racing" {
			if !await(l, prompt) {
				return fail(timing("cancel-not-prompt", "CallWithContext %d did not return within %v of its context being done (server never answered)", l.id, prompt))
			}
			if l.retErr != l.ctx.Err() || l.retErr == nil {
				return fail(kit.Fail("cancel-wrong-error", "CallWithContext %d returned %v, its context's error is %v and no response had been sent", l.id, l.retErr, l.ctx.Err()))
			}
			if late := l.retAt.Sub(l.cancelAt); late > prompt {
				return fail(timing("cancel-not-prompt", "CallWithContext %d returned %v after its context was done", l.id, late))
			}
		}
	}
	// snapshot live siblings before the late responses
	liveOutstanding := 0
	for _, l := range calls {
		if !l.returned {
			liveOutstanding++
		}
	}
	// phase 3: late responses for abandoned calls
	lateCount := 0
	for _, l := range calls {
		if l.spec.Resp == "late" && l.returned && l.spec.Cancel != "never" {
			respond(l, "phase3(late)")
			lateCount++
		}
	}
	if lateCount > 0 {
		link.C.WaitReaderIdle(bound)
		time.Sleep(2 * time.Millisecond)
	}
	// no live sibling may have been completed or touched by the late responses
	for _, l := range calls {
		if l.returned || l.spec.Resp == "late" {
			continue
		}
		if await(l, 0) {
			return fail(kit.Fail("sibling-completed", "call %d (%s) completed (%v) although no response for it was sent; %d late responses for abandoned calls had just been delivered", l.id, l.spec.Form, l.retErr, lateCount))
		}
		if string(l.reply) != "sentinel" {
			return fail(kit.Fail("sibling-touched", "reply object of outstanding call %d changed after late responses for other calls", l.id))
		}
	}
	// phase 4: answer the rest
	for _, l := range calls {
		if l.spec.Resp == "end" || (l.spec.Resp == "late" && !l.answered) {
			respond(l, "phase4")
		}
	}
	for _, l := range calls {
		if l.answered && !l.returned {
			if !await(l, bound) {
				return fail(timing("answered-not-returned", "call %d (%s) did not return within %v although its response was delivered", l.id, l.spec.Form, bound))
			}
		}
	}
	if !c.DirectIO {
		time.Sleep(3 * time.Millisecond)
	}
	// judge results
	for _, l := range calls {
		if !l.returned {
			continue // never answered, never cancelled: ends with the connection
		}
		ctxDone := l.spec.Form == "ctx" && l.spec.Cancel != "never"
		switch {
		case l.retErr == nil:
			if !l.answered {
				return fail(kit.Fail("success-without-response", "call %d returned nil although no response for it was sent", l.id))
			}
			if string(l.reply) != string(l.want) {
				return fail(kit.Fail("wrong-reply", "call %d returned a reply that is not its own: got %s want %s", l.id, kit.Brief(l.reply), kit.Brief(l.want)))
			}
			if l.buf != nil && len(l.want) > 0 {
				if cap(l.buf) >= len(l.want) {
					if &l.reply[0] != &l.buf[:1][0] {
						return fail(kit.Fail("buffer-not-used", "call %d: context buffer of capacity %d is large enough for the %d-byte reply but was not used", l.id, cap(l.buf), len(l.want)))
					}
					for j := len(l.want); j < cap(l.buf); j++ {
						if l.buf[j] != guard {
							return fail(kit.Fail("buffer-overrun", "call %d: byte %d of the context buffer (beyond the %d-byte reply) was overwritten", l.id, j, len(l.want)))
						}
					}
				} else {
					for j := range l.buf {
						if l.buf[j] != guard {
							return fail(kit.Fail("small-buffer-touched", "call %d: context buffer of capacity %d is too small for the %d-byte reply but byte %d was overwritten", l.id, cap(l.buf), len(l.want), j))
						}
					}
				}
			}
		case ctxDone && l.retErr == l.ctx.Err():
			// allowed whenever the context was done by the time it returned
		default:
			return fail(kit.Fail("unexpected-error", "call %d (%s cancel=%s resp=%s) returned %v", l.id, l.spec.Form, l.spec.Cancel, l.spec.Resp, l.retErr))
		}
		if l.spec.Form == "ctx" && l.spec.Cancel == "never" && l.retErr != nil {
			return fail(kit.Fail("unexpected-error", "CallWithContext %d was never cancelled and was answered, but returned %v", l.id, l.retErr))
		}
	}
	// exactly-once for asynchronous siblings
	for _, l := range calls {
		if l.done != nil && l.returned {
			select {
			case <-l.done:
				return fail(kit.Fail("sibling-signalled-twice", "Go call %d was signalled a second time", l.id))
			default:
			}
		}
	}
	out := kit.Outcome{}
	for _, l := range calls {
		if l.buf != nil && l.spec.BufCap >= l.spec.ReplyLen-1 && l.spec.BufCap <= l.spec.ReplyLen+1 && l.spec.ReplyLen > 0 {
			out.Nontrivial = true
			out.Classes = append(out.Classes, "buffer-at-reply-length")
			break
		}
	}
	if lateCount > 0 && liveOutstanding > 0 {
		out.Nontrivial = true
		out.Classes = append(out.Classes, "late-response-with-live-sibling")
	}
	if lateCount > 0 {
		out.Classes = append(out.Classes, "late-response")
	}
	if racing > 0 && c.DecodeDelayUS > 0 && c.FollowUps > 0 {
		out.Nontrivial = true
		out.Classes = append(out.Classes, "cancel-during-decode-with-follow-ups")
	}
	if c.DirectIO {
		out.Classes = append(out.Classes, "direct-io")
	}
	out.Counters = map[string]int{"calls": len(calls), "late_responses": lateCount}
	return out
}

var prop = kit.Property[Case]{
	ID:    "C19",
	Level: "exploration",
	Rule: "rapid-generated sets of 1-10 calls (CallWithContext with cancel/deadline/never, Go, Call) on one real Conn (direct IO drawn, 4 header encoders) to a scripted server over a harness-owned frame link; the harness orders response-before-cancel, cancel, late response for the abandoned call, and final responses for live siblings; context buffers of capacity none/0/len-1/len/len+1/4*len/random, guard-filled. Non-trivial: at least one late response delivered while a live sibling is outstanding, or a buffer capacity within +-1 of a non-empty reply; distinct by SHA-1 of the case.",
	Assumptions: []string{
		"'promptly' is checked as: returns within 2 s of the context being done (rule T: a miss must reproduce in isolation)",
		"when both the response and the cancellation happened before the call returned, either outcome is accepted",
		"the late response being decoded into the abandoned call's own reply object is not asserted against (the statement protects other calls)",
	},
	Gen: gen,
	Run: run,
}

func TestProperty(t *testing.T) { kit.Check(t, prop) }
