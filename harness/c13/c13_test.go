package c13

import (
	"fmt"
	"sync"
	"testing"
	"time"

	"github.com/hslam/rpc"
	"pgregory.net/rapid"
	"verif/harness/kit"
)

// Op is one step of a history.
type Op struct {
	K     string `json:"k"` // call | burst | sleep | closeidle | kill | restart | longstart | longfinish | stream | streamclose
	A     int    `json:"a,omitempty"`
	Form  string `json:"form,omitempty"`
	N     int    `json:"n,omitempty"`
	Ticks int    `json:"ticks,omitempty"`
}

// Case is a Transport configuration plus a history.
type Case struct {
	Cfg kit.TCfg `json:"cfg"`
	Ops []Op     `json:"ops"`
}

var forms = []string{"call", "go", "ctx", "roundtrip", "ping"}

func gen(t *rapid.T) Case {
	c := Case{Cfg: kit.TCfg{
		Addrs:     rapid.IntRange(1, 3).Draw(t, "addrs"),
		Max:       rapid.SampledFrom([]int{-1, 0, 1, 2, 3, 4, 5}).Draw(t, "max"),
		MaxIdle:   rapid.SampledFrom([]int{-1, 0, 1, 2, 3, 5, 7}).Draw(t, "max_idle"),
		KeepAlive: rapid.IntRange(1, 12).Draw(t, "keep_alive"),
		IdleTO:    rapid.SampledFrom([]int{1, 3, 8, 20, 40, 200}).Draw(t, "idle_to"),
		TickUS:    2000,
		Enc:       rapid.SampledFrom(kit.Encoders).Draw(t, "enc"),
	}}
	n := rapid.IntRange(3, 25).Draw(t, "nops")
	long := 0
	for i := 0; i < n; i++ {
		a := rapid.IntRange(0, c.Cfg.Addrs-1).Draw(t, "a")
		k := rapid.IntRange(0, 19).Draw(t, "k")
		switch {
		case k <= 4:
			c.Ops = append(c.Ops, Op{K: "call", A: a, Form: rapid.SampledFrom(forms).Draw(t, "form")})
		case k <= 9:
			c.Ops = append(c.Ops, Op{K: "burst", A: a, N: rapid.IntRange(2, 12).Draw(t, "n"), Form: rapid.SampledFrom(forms[:4]).Draw(t, "form")})
		case k <= 12:
			c.Ops = append(c.Ops, Op{K: "sleep", Ticks: rapid.IntRange(1, 30).Draw(t, "ticks")})
		case k == 13:
			c.Ops = append(c.Ops, Op{K: "closeidle"})
		case k == 14:
			c.Ops = append(c.Ops, Op{K: "kill", A: a})
		case k == 15:
			c.Ops = append(c.Ops, Op{K: "restart", A: a})
		case k == 16:
			c.Ops = append(c.Ops, Op{K: "longstart", A: a})
			long++
		case k == 17 && long > 0:
			c.Ops = append(c.Ops, Op{K: "longfinish"})
			long--
		case k == 18:
			c.Ops = append(c.Ops, Op{K: "stream", A: a})
		default:
			c.Ops = append(c.Ops, Op{K: "streamclose"})
		}
	}
	return c
}

const bound = 10 * time.Second

func run(c Case) kit.Outcome {
	if !c.Cfg.Valid() || len(c.Ops) == 0 || len(c.Ops) > 200 {
		return kit.Outcome{Invalid: true}
	}
	for _, op := range c.Ops {
		if op.A < 0 || op.A >= c.Cfg.Addrs || op.N < 0 || op.N > 64 || op.Ticks < 0 || op.Ticks > 500 {
			return kit.Outcome{Invalid: true}
		}
	}
	w, err := kit.NewTWorld(c.Cfg)
	if err != nil {
		return kit.Undecided("%v", err)
	}
	defer w.Close()
	effMax, effIdle := c.Cfg.EffMax(), c.Cfg.EffMaxIdle()
	tick := c.Cfg.Tick()
	var hist []string
	h := func(f string, a ...interface{}) { hist = append(hist, fmt.Sprintf(f, a...)) }
	// sampler: the count is also read between dials
	stop := make(chan struct{})
	var smu sync.Mutex
	var sampled string
	go func() {
		for {
			select {
			case <-stop:
				return
			default:
			}
			for _, a := range w.Addrs {
				if n := w.Net.OpenClient(a); n > effMax {
					smu.Lock()
					if sampled == "" {
						sampled = fmt.Sprintf("%d connections to %s open at once (limit %d)", n, a, effMax)
					}
					smu.Unlock()
				}
			}
			time.Sleep(50 * time.Microsecond)
		}
	}()
	defer close(stop)

	type longCall struct {
		a    int
		id   uint64
		done chan kit.CallResult
	}
	var longs []longCall
	var streams []rpc.Stream
	undecided := ""
	concurrent, killed, sleptLong := false, false, false
	lastTraffic := time.Now()
	for _, op := range c.Ops {
		switch op.K {
		case "call":
			r := w.Do(op.A, op.Form, kit.DirEcho, bound)
			if r.Timeout {
				undecided = fmt.Sprintf("call to %s did not complete within %v", w.Addrs[op.A], bound)
			}
			h("call %s(%d) -> %v", op.Form, op.A, r.Err)
			lastTraffic = time.Now()
		case "burst":
			var wg sync.WaitGroup
			for i := 0; i < op.N; i++ {
				wg.Add(1)
				go func() {
					defer wg.Done()
					if r := w.Do(op.A, op.Form, kit.DirEcho, bound); r.Timeout {
						smu.Lock()
						undecided = "a burst call did not complete"
						smu.Unlock()
					}
				}()
			}
			wg.Wait()
			concurrent = true
			h("burst %d x %s(%d)", op.N, op.Form, op.A)
			lastTraffic = time.Now()
		case "sleep":
			time.Sleep(time.Duration(op.Ticks) * tick)
			if op.Ticks > c.Cfg.KeepAlive {
				sleptLong = true
			}
			h("sleep %d ticks", op.Ticks)
		case "closeidle":
			w.Tr.CloseIdleConnections()
			h("CloseIdleConnections")
		case "kill":
			n := w.Kill(op.A)
			killed = true
			h("kill %d (%d client connections open)", op.A, n)
		case "restart":
			if err := w.Restart(op.A); err != nil {
				return kit.Undecided("%v", err)
			}
			h("restart %d", op.A)
		case "longstart":
			if !w.Up(op.A) {
				continue
			}
			lc := longCall{a: op.A}
			lc.id, lc.done = w.DoAsync(op.A, "call", kit.DirGate, 60*time.Second)
			w.Env(op.A).WaitStartedIDs([]uint64{lc.id}, 2*time.Second)
			longs = append(longs, lc)
			h("long call started on %d", op.A)
			lastTraffic = time.Now()
		case "longfinish":
			if len(longs) == 0 {
				continue
			}
			lc := longs[0]
			longs = longs[1:]
			w.Env(lc.a).Open(lc.id)
			select {
			case <-lc.done:
			case <-time.After(bound):
				undecided = "long call did not return after its gate opened"
			}
			h("long call on %d finished", lc.a)
			lastTraffic = time.Now()
		case "stream":
			if !w.Up(op.A) {
				continue
			}
			sc := make(chan rpc.Stream, 1)
			go func() {
				st, _ := w.Tr.NewStream(w.Addrs[op.A], "S.Stream")
				sc <- st
			}()
			select {
			case st := <-sc:
				if st != nil {
					streams = append(streams, st)
				}
			case <-time.After(bound):
				undecided = "NewStream did not return"
			}
			h("stream opened on %d", op.A)
			lastTraffic = time.Now()
		case "streamclose":
			if len(streams) == 0 {
				continue
			}
			st := streams[0]
			streams = streams[1:]
			done := make(chan struct{})
			go func() { st.Close(); close(done) }()
			select {
			case <-done:
			case <-time.After(bound):
			}
			h("stream closed")
			lastTraffic = time.Now()
		default:
			return kit.Outcome{Invalid: true}
		}
		if v := w.Violations(); len(v) > 0 {
			o := kit.Fail("over-limit-at-dial", "the Transport dialed beyond MaxConnsPerHost: %s (configured Max=%d MaxIdle=%d)", v[0], c.Cfg.Max, c.Cfg.MaxIdle)
			o.History = hist
			return o
		}
	}
	// finish busy work, then the idle bound after a quiet period
	for _, lc := range longs {
		w.Env(lc.a).Open(lc.id)
		select {
		case <-lc.done:
		case <-time.After(bound):
			undecided = "long call did not return after its gate opened"
		}
	}
	for _, st := range streams {
		done := make(chan struct{})
		st := st
		go func() { st.Close(); close(done) }()
		select {
		case <-done:
		case <-time.After(bound):
		}
	}
	_ = lastTraffic
	// From KeepAlive+3 ticks after the last use every connection still open is an idle one; the
	// count is sampled from then on for as long as idle connections may live (IdleConnTimeout).
	quiet := time.Duration(c.Cfg.KeepAlive+3)*tick + 10*time.Millisecond
	time.Sleep(quiet)
	window := time.Duration(c.Cfg.IdleTO+2) * tick
	if window > 60*time.Millisecond {
		window = 60 * time.Millisecond
	}
	deadline := time.Now().Add(window)
	streak, over := 0, ""
	for time.Now().Before(deadline) || streak > 0 {
		cur := ""
		for _, a := range w.Addrs {
			if n := w.Net.OpenClient(a); n > effIdle {
				cur = fmt.Sprintf("%d connections to %s open although nothing has been outstanding for more than KeepAlive+3 ticks, so all of them are idle (effective idle limit %d; configured Max=%d MaxIdle=%d KeepAlive=%d IdleConnTimeout=%d ticks)", n, a, effIdle, c.Cfg.Max, c.Cfg.MaxIdle, c.Cfg.KeepAlive, c.Cfg.IdleTO)
			}
		}
		if cur == "" {
			streak = 0
		} else {
			streak++
			over = cur
			if streak >= 5 {
				o := kit.Fail("over-idle-limit", "%s", over)
				o.Timing = true
				o.History = hist
				return o
			}
		}
		time.Sleep(500 * time.Microsecond)
	}
	if v := w.Violations(); len(v) > 0 {
		o := kit.Fail("over-limit-at-dial", "the Transport dialed beyond MaxConnsPerHost: %s", v[0])
		o.History = hist
		return o
	}
	smu.Lock()
	sv, ud := sampled, undecided
	smu.Unlock()
	if sv != "" {
		o := kit.Fail("over-limit-sampled", "%s", sv)
		o.History = hist
		return o
	}
	if ud != "" {
		return kit.Undecided("%s", ud)
	}
	peak := 0
	for _, a := range w.Addrs {
		if p := w.Peak(a); p > peak {
			peak = p
		}
	}
	out := kit.Outcome{Counters: map[string]int{"ops": len(c.Ops)}, Classes: []string{fmt.Sprintf("effmax=%d", effMax)}}
	if concurrent && (killed || sleptLong) {
		out.Nontrivial = true
	}
	if peak == effMax {
		out.Classes = append(out.Classes, "peak-reached-limit")
	}
	if c.Cfg.Max < 1 || c.Cfg.MaxIdle < 1 {
		out.Classes = append(out.Classes, "default-fallback")
	}
	if c.Cfg.MaxIdle > effMax {
		out.Classes = append(out.Classes, "idle-clamped")
	}
	return out
}

var prop = kit.Property[Case]{
	ID:    "C13",
	Level: "exploration",
	Rule:  "rapid-generated histories (3-25 steps) against a real Transport over a counting in-memory network with 1-3 servers, housekeeping tick 2 ms (verif hook), MaxConnsPerHost in {-1,0,1..5}, MaxIdleConnsPerHost in {-1,0,1,2,3,5,7}, KeepAlive and IdleConnTimeout 1-12 ticks: single calls of every form, bursts of 2-12 concurrent callers, sleeps of 1-30 ticks, CloseIdleConnections, server kill/restart, long (gated) calls, streams opened and closed. Oracle: at every dial (inside the network's dial hook, the only moment the count grows) and in a 50 us sampler the number of client connections to the address that were dialed and not yet closed is <= the effective MaxConnsPerHost (default when non-positive); after a final quiet period of KeepAlive+3 ticks with nothing outstanding it is <= the effective MaxIdleConnsPerHost (default when non-positive, clamped to the connection limit). Non-trivial: >= 2 concurrent callers on one address and (a kill/restart or a sleep longer than KeepAlive); distinct by SHA-1 of the case.",
	Assumptions: []string{
		"a connection counts as held by the Transport from dial until the client side closes it",
		"the idle bound is read after the quiet period with up to 500 ms of slack and must reproduce in isolation (rule T)",
	},
	Gen: gen,
	Run: run,
}

func TestProperty(t *testing.T) { kit.Check(t, prop) }
