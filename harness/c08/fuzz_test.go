package c08

import (
	"encoding/hex"
	"encoding/json"
	"fmt"
	"os"
	"testing"

	"verif/harness/kit"
)

// caseFromFuzz decodes fuzzer bytes into a structured case: the selector picks header encoder,
// server modes and side; data is a sequence of length-prefixed frames (1-byte length, 255 = rest).
func caseFromFuzz(sel byte, data []byte, client bool) Case {
	c := Case{Enc: kit.Encoders[int(sel)&3], Pipelining: sel&4 != 0, DirectIO: sel&8 != 0, Origin: "native-fuzz"}
	if client {
		c.Mode = "client"
		c.Pipelining = false
		c.Pending = int(sel>>4) & 3
		c.Stream = sel&0x40 != 0
	} else {
		c.Mode = "frames"
	}
	for len(data) > 0 && len(c.Frames) < 16 {
		n := int(data[0])
		data = data[1:]
		if n == 255 || n > len(data) {
			n = len(data)
		}
		c.Frames = append(c.Frames, hex.EncodeToString(data[:n]))
		data = data[n:]
	}
	if len(c.Frames) == 0 {
		c.Frames = []string{""}
	}
	return c
}

func seedCorpus(f *testing.F, client bool) {
	for ei, enc := range kit.Encoders {
		var frames map[string][]byte
		if client {
			frames = validResponses(enc)
		} else {
			frames = validRequests(enc)
		}
		for _, fr := range frames {
			if len(fr) < 255 {
				f.Add(byte(ei), append([]byte{byte(len(fr))}, fr...))
				f.Add(byte(ei|8), append([]byte{byte(len(fr))}, fr...))
			}
		}
		for k, fr := range lengthAttacks(enc, client) {
			if k%7 == 0 && len(fr) < 255 {
				f.Add(byte(ei), append([]byte{byte(len(fr))}, fr...))
			}
		}
		// hostile constants found so far
		for _, hx := range []string{"08", "01", "80", "08051a", "0200", "08011201a4", "88081201c81a08532e53747265616d"} {
			b, _ := hex.DecodeString(hx)
			f.Add(byte(ei), append([]byte{byte(len(b))}, b...))
		}
	}
}

func fuzzBody(t *testing.T, c Case) {
	out := run(c)
	if out.Violation != "" && !out.Timing {
		t.Fatalf("[%s] %s", out.Clause, out.Violation)
	}
}

// FuzzServeFrames: coverage-guided hostile request frames against a real Server; the oracle is
// the same as the enumeration's (process alive, probes answered).
func FuzzServeFrames(f *testing.F) {
	seedCorpus(f, false)
	f.Fuzz(func(t *testing.T, sel byte, data []byte) { fuzzBody(t, caseFromFuzz(sel, data, false)) })
}

// FuzzClientFrames: coverage-guided hostile response frames against a real Conn.
func FuzzClientFrames(f *testing.F) {
	seedCorpus(f, true)
	f.Fuzz(func(t *testing.T, sel byte, data []byte) { fuzzBody(t, caseFromFuzz(sel, data, true)) })
}

// TestFuzzToCase converts a native fuzz corpus file (VERIF_FUZZ_FILE, VERIF_FUZZ_TARGET) into the
// equivalent case JSON on stdout so that the ordinary replay path can run it.
func TestFuzzToCase(t *testing.T) {
	path := os.Getenv("VERIF_FUZZ_FILE")
	if path == "" {
		t.Skip("no VERIF_FUZZ_FILE")
	}
	args, err := kit.ParseFuzzFile(path)
	if err != nil || len(args) != 2 || len(args[0]) != 1 {
		t.Fatalf("cannot parse %s: %v", path, err)
	}
	c := caseFromFuzz(args[0][0], args[1], os.Getenv("VERIF_FUZZ_TARGET") == "FuzzClientFrames")
	b, _ := json.Marshal(c)
	fmt.Printf("VERIF-CASE %s\n", b)
}
