package c08

import (
	"bytes"
	"encoding/hex"
	"errors"
	"fmt"
	"runtime"
	"sync"
	"sync/atomic"
	"testing"
	"time"

	"github.com/hslam/rpc"
	"pgregory.net/rapid"
	"verif/harness/kit"
)

// Case is a hostile peer scenario. Worker death while executing a case is the violation
// (detected by the driver through the journal); in-process the probes are judged.
type Case struct {
	Mode       string   `json:"mode"` // frames | burst | client | clientstorm
	Enc        string   `json:"enc"`
	Pipelining bool     `json:"pipelining,omitempty"`
	DirectIO   bool     `json:"direct_io,omitempty"`
	Frames     []string `json:"frames,omitempty"` // hex, delivered as frames to the side under test
	Origin     string   `json:"origin,omitempty"` // how the frames were derived (for signatures)
	// burst mode: well-formed requests followed by a disconnect
	Burst   []string `json:"burst,omitempty"` // call | gated | ping | sopen | sdata | sclose | unknown
	EOFAt   int      `json:"eof_at,omitempty"`
	Quiet   bool     `json:"quiet,omitempty"`
	Unix    bool     `json:"unix,omitempty"`    // burst mode: real unix sockets
	Poll    bool     `json:"poll,omitempty"`    // burst mode over unix sockets: poll-mode server
	Pending int      `json:"pending,omitempty"` // client mode: calls pending when the hostile frames arrive
	Stream  bool     `json:"stream,omitempty"`  // client mode: a stream is open too
	// clientstorm mode: callers keep issuing calls on a real Conn while the peer disconnects
	Callers  int  `json:"callers,omitempty"`
	CliPipe  bool `json:"cli_pipe,omitempty"`
	CutAfter int  `json:"cut_after,omitempty"` // the peer disconnects after this many completed calls
	HardCut  bool `json:"hard_cut,omitempty"`  // read error instead of a clean EOF
	Volley   int  `json:"volley,omitempty"`    // asynchronous calls issued back to back by a caller
	Rounds   int  `json:"rounds,omitempty"`    // connections stormed one after the other
}

const probeSeq = 0x7777

// validRequests returns the corpus of well-formed request frames for an encoder.
func validRequests(enc string) map[string][]byte {
	args := kit.MakePayload(9, kit.DirEcho, 1, 24)
	m := map[string][]byte{}
	m["call"] = kit.RefEncodeRequest(enc, kit.ReqHeader{Seq: 5, Method: "S.Echo", Args: args})
	m["callret"] = kit.RefEncodeRequest(enc, kit.ReqHeader{Seq: 300, Method: "S.EchoCtxRet", Args: args})
	m["unknown"] = kit.RefEncodeRequest(enc, kit.ReqHeader{Seq: 6, Method: "S.Nope", Args: args})
	m["ping"] = kit.RefEncodeRequest(enc, kit.ReqHeader{Seq: 7, Upgrade: []byte{kit.RefUpgrade(true, true, true, 0)}})
	m["sopen"] = kit.RefEncodeRequest(enc, kit.ReqHeader{Seq: 8, Method: "S.Stream", Upgrade: []byte{kit.RefUpgrade(true, true, false, kit.StreamOpen)}})
	m["sdata"] = kit.RefEncodeRequest(enc, kit.ReqHeader{Seq: 8, Args: args, Upgrade: []byte{kit.RefUpgrade(false, false, false, kit.StreamData)}})
	m["sclose"] = kit.RefEncodeRequest(enc, kit.ReqHeader{Seq: 8, Upgrade: []byte{kit.RefUpgrade(true, true, false, kit.StreamClose)}})
	m["big"] = kit.RefEncodeRequest(enc, kit.ReqHeader{Seq: 1 << 40, Method: "S.Echo", Args: kit.MakePayload(10, 0, 2, 200)})
	return m
}

func validResponses(enc string) map[string][]byte {
	m := map[string][]byte{}
	m["ok"] = kit.RefEncodeResponse(enc, kit.ResHeader{Seq: 0, Reply: kit.MakePayload(9, 0, 1, 24)})
	m["ok1"] = kit.RefEncodeResponse(enc, kit.ResHeader{Seq: 1, Reply: kit.MakePayload(9, 0, 1, 200)})
	m["err"] = kit.RefEncodeResponse(enc, kit.ResHeader{Seq: 1, Error: "some handler error"})
	m["empty"] = kit.RefEncodeResponse(enc, kit.ResHeader{Seq: 2})
	return m
}

var kindsOrder = []string{"call", "callret", "unknown", "ping", "sopen", "sdata", "sclose", "big"}
var respOrder = []string{"ok", "ok1", "err", "empty"}

var hostileLengths = []uint64{
	^uint64(0), ^uint64(0) - 1, ^uint64(0) - 8, ^uint64(0) - 9, ^uint64(0) - 10, ^uint64(0) - 11, ^uint64(0) - 20,
	1 << 63, 1<<63 - 1, 1<<63 + 1, 1 << 62, 1 << 32, 1<<32 - 1, 1 << 31, 1<<31 - 1, 1 << 16, 65535, 256, 255, 128, 127, 21, 20, 11, 10, 9, 1, 0,
}

func uvarint(v uint64) []byte {
	var b []byte
	for v >= 0x80 {
		b = append(b, byte(v)|0x80)
		v >>= 7
	}
	return append(b, byte(v))
}

// lengthAttacks builds frames whose length-delimited fields carry hostile length prefixes.
func lengthAttacks(enc string, response bool) [][]byte {
	var out [][]byte
	tails := []int{0, 1, 9, 10, 11, 20, 40}
	switch enc {
	case "default", "pb":
		tags := []byte{0x12, 0x1a, 0x22}
		if response {
			tags = []byte{0x12, 0x1a}
		}
		for _, tag := range tags {
			for _, l := range hostileLengths {
				for _, tl := range tails {
					for _, withSeq := range []bool{false, true} {
						var f []byte
						if withSeq {
							f = append(f, 0x08, 0x05)
						}
						f = append(f, tag)
						f = append(f, uvarint(l)...)
						f = append(f, bytes.Repeat([]byte{'a'}, tl)...)
						out = append(out, f)
					}
				}
			}
		}
	case "code":
		nfields := 3
		if response {
			nfields = 2
		}
		for field := 0; field < nfields; field++ {
			for _, l := range hostileLengths {
				for _, tl := range tails {
					f := []byte{0x05}
					for k := 0; k < field; k++ {
						f = append(f, 0x01, 'x')
					}
					f = append(f, uvarint(l)...)
					f = append(f, bytes.Repeat([]byte{'a'}, tl)...)
					out = append(out, f)
				}
			}
		}
		// hostile sequence-number varints
		for _, raw := range []string{"ffffffffffffffffff01", "ffffffffffffffffff7f", "ffffffffffffffffffff01", "80808080808080808080", "ff"} {
			b, _ := hex.DecodeString(raw)
			out = append(out, append(b, 0, 0, 0))
		}
	}
	return out
}

func corruptValues(b byte, thorough bool) []byte {
	if thorough {
		out := make([]byte, 0, 255)
		for v := 0; v < 256; v++ {
			if byte(v) != b {
				out = append(out, byte(v))
			}
		}
		return out
	}
	cands := []byte{0x00, 0x01, 0x7f, 0x80, 0xff, b ^ 0x01, b ^ 0x80, b + 1, b - 1, 0x08, 0x0a, 0x12, 0x1a, 0x22}
	seen := map[byte]bool{b: true}
	var out []byte
	for _, v := range cands {
		if !seen[v] {
			seen[v] = true
			out = append(out, v)
		}
	}
	return out
}

func enum(tier string, yield func(Case)) {
	thorough := tier == "thorough"
	stormCases(yield)
	modes := [][2]bool{{false, false}, {true, false}, {false, true}, {true, true}}
	mi := 0
	next := func() (bool, bool) { m := modes[mi%4]; mi++; return m[0], m[1] }
	for _, enc := range kit.Encoders {
		reqs := validRequests(enc)
		// hostile constants found so far, and the empty frame
		for _, hx := range []string{"", "08", "01", "10", "12", "1a", "22", "0a", "80", "ff", "0880", "12ff", "1aff01", "7b", "7b7d", "6e756c6c", "5b5d", "22", "00", "0000", "000000"} {
			p, d := next()
			yield(Case{Mode: "frames", Enc: enc, Pipelining: p, DirectIO: d, Frames: []string{hx}, Origin: "constant"})
		}
		for _, k := range kindsOrder {
			f := reqs[k]
			// every truncation
			for n := 0; n < len(f); n++ {
				p, d := next()
				yield(Case{Mode: "frames", Enc: enc, Pipelining: p, DirectIO: d, Frames: []string{hex.EncodeToString(f[:n])}, Origin: "truncate:" + k})
			}
			// single-byte corruptions
			for pos := 0; pos < len(f); pos++ {
				for _, v := range corruptValues(f[pos], thorough) {
					g := append([]byte(nil), f...)
					g[pos] = v
					p, d := next()
					c := Case{Mode: "frames", Enc: enc, Pipelining: p, DirectIO: d, Frames: []string{hex.EncodeToString(g)}, Origin: "corrupt:" + k}
					if k == "sdata" || k == "sclose" {
						// with the stream open
						c.Frames = []string{hex.EncodeToString(reqs["sopen"]), hex.EncodeToString(g)}
					}
					yield(c)
				}
			}
		}
		// hostile length prefixes: every length-delimited field position, with lengths at the
		// integer boundaries (incl. values whose sum with the offset wraps around 2^64)
		for _, fr := range lengthAttacks(enc, false) {
			p, d := next()
			yield(Case{Mode: "frames", Enc: enc, Pipelining: p, DirectIO: d, Frames: []string{hex.EncodeToString(fr)}, Origin: "length-attack"})
		}
		for _, fr := range lengthAttacks(enc, true) {
			_, d := next()
			yield(Case{Mode: "client", Enc: enc, DirectIO: d, Frames: []string{hex.EncodeToString(fr)}, Pending: 2, Stream: true, Origin: "length-attack"})
		}
		// every upgrade byte x {known, unknown, stream method} x {no stream, open stream id, other id}
		args := kit.MakePayload(9, kit.DirEcho, 1, 24)
		for u := 0; u < 256; u++ {
			for mi2, method := range []string{"S.Echo", "S.Nope", "S.Stream", "S.EchoRet"} {
				for st := 0; st < 3; st++ {
					if !thorough && mi2 == 3 && st > 0 {
						continue
					}
					var frames []string
					seq := uint64(8)
					if st >= 1 {
						frames = append(frames, hex.EncodeToString(reqs["sopen"]))
					}
					if st == 2 {
						seq = 99
					}
					frames = append(frames, hex.EncodeToString(kit.RefEncodeRequest(enc, kit.ReqHeader{Seq: seq, Method: method, Args: args, Upgrade: []byte{byte(u)}})))
					p, d := next()
					yield(Case{Mode: "frames", Enc: enc, Pipelining: p, DirectIO: d, Frames: frames, Origin: fmt.Sprintf("upgrade:%s:stream%d", method, st)})
				}
			}
			// flags with an empty method and no arguments
			p, d := next()
			yield(Case{Mode: "frames", Enc: enc, Pipelining: p, DirectIO: d, Frames: []string{hex.EncodeToString(kit.RefEncodeRequest(enc, kit.ReqHeader{Seq: 3, Upgrade: []byte{byte(u)}}))}, Origin: "upgrade:bare"})
		}
		// client side: every truncation and corruption of valid responses
		resps := validResponses(enc)
		for _, k := range respOrder {
			f := resps[k]
			for n := 0; n < len(f); n++ {
				_, d := next()
				yield(Case{Mode: "client", Enc: enc, DirectIO: d, Frames: []string{hex.EncodeToString(f[:n])}, Pending: 3, Stream: n%2 == 0, Origin: "truncate:" + k})
			}
			for pos := 0; pos < len(f); pos++ {
				for _, v := range corruptValues(f[pos], thorough) {
					g := append([]byte(nil), f...)
					g[pos] = v
					_, d := next()
					yield(Case{Mode: "client", Enc: enc, DirectIO: d, Frames: []string{hex.EncodeToString(g)}, Pending: 3, Stream: pos%2 == 0, Origin: "corrupt:" + k})
				}
			}
		}
		for _, hx := range []string{"", "08", "01", "10", "12", "1a", "80", "ff", "7b7d", "6e756c6c", "00", "0000"} {
			_, d := next()
			yield(Case{Mode: "client", Enc: enc, DirectIO: d, Frames: []string{hx}, Pending: 2, Stream: true, Origin: "constant"})
		}
		// disconnect points over real unix sockets, non-poll and poll-mode servers (every 3rd prefix)
		for _, poll := range []bool{false, true} {
			for _, m := range modes {
				for at := 1; at <= 12; at += 3 {
					b2 := []string{"call", "call", "sopen", "sdata", "call", "ping", "sdata", "call", "unknown", "sclose", "call", "call"}
					yield(Case{Mode: "burst", Enc: enc, Pipelining: m[0], DirectIO: m[1], Burst: b2, EOFAt: at, Quiet: at%2 == 0, Unix: true, Poll: poll, Origin: "burst-unix"})
				}
			}
		}
		// disconnect points: a fixed burst, EOF after every prefix, every mode
		burst := []string{"call", "gated", "sopen", "sdata", "call", "ping", "sdata", "gated", "unknown", "sclose", "call", "call"}
		for _, m := range modes {
			for at := 1; at <= len(burst); at++ {
				for _, quiet := range []bool{false, true} {
					if m[0] {
						// pipelining servers: a gated handler would block the queue; use calls instead
						b2 := make([]string, len(burst))
						for i, k := range burst {
							if k == "gated" {
								k = "call"
							}
							b2[i] = k
						}
						yield(Case{Mode: "burst", Enc: enc, Pipelining: true, DirectIO: m[1], Burst: b2, EOFAt: at, Quiet: quiet, Origin: "burst"})
					} else {
						yield(Case{Mode: "burst", Enc: enc, DirectIO: m[1], Burst: burst, EOFAt: at, Quiet: quiet, Origin: "burst"})
					}
				}
			}
		}
	}
}

// stormCases are fixed strong client storms (many callers, client pipelining, many rounds).
func stormCases(yield func(Case)) {
	for _, enc := range kit.Encoders {
		for _, cut := range []int{0, 3, 100} {
			for hi, hard := range []bool{false, true} {
				yield(Case{Mode: "clientstorm", Enc: enc, Callers: 8 + 2*hi, CliPipe: true, CutAfter: cut, HardCut: hard, Volley: 8 + 24*hi, Rounds: 40, Origin: "client-storm"})
			}
		}
	}
}

func gen(t *rapid.T) Case {
	c := Case{Enc: rapid.SampledFrom(kit.Encoders).Draw(t, "enc"), Pipelining: rapid.Bool().Draw(t, "pipelining"), DirectIO: rapid.Bool().Draw(t, "direct_io")}
	k := rapid.IntRange(0, 9).Draw(t, "mode")
	mutate := func(f []byte) []byte {
		g := append([]byte(nil), f...)
		ops := rapid.IntRange(1, 3).Draw(t, "nmut")
		for i := 0; i < ops && len(g) > 0; i++ {
			switch rapid.IntRange(0, 4).Draw(t, "mut") {
			case 0:
				g = g[:rapid.IntRange(0, len(g)-1).Draw(t, "trunc")]
			case 1:
				g[rapid.IntRange(0, len(g)-1).Draw(t, "pos")] = rapid.Byte().Draw(t, "val")
			case 2:
				p := rapid.IntRange(0, len(g)-1).Draw(t, "pos")
				g = append(g[:p], append([]byte{rapid.Byte().Draw(t, "ins")}, g[p:]...)...)
			case 3:
				p := rapid.IntRange(0, len(g)-1).Draw(t, "pos")
				g = append(g[:p], g[p+1:]...)
			default:
				p := rapid.IntRange(0, len(g)-1).Draw(t, "pos")
				g[p] ^= 1 << uint(rapid.IntRange(0, 7).Draw(t, "bit"))
			}
		}
		return g
	}
	switch {
	case k <= 4:
		c.Mode = "frames"
		reqs := validRequests(c.Enc)
		n := rapid.IntRange(1, 8).Draw(t, "nframes")
		for i := 0; i < n; i++ {
			base := reqs[rapid.SampledFrom(kindsOrder).Draw(t, "base")]
			switch rapid.IntRange(0, 3).Draw(t, "how") {
			case 0:
				c.Frames = append(c.Frames, hex.EncodeToString(base))
			case 1, 2:
				c.Frames = append(c.Frames, hex.EncodeToString(mutate(base)))
			default:
				c.Frames = append(c.Frames, hex.EncodeToString(rapid.SliceOfN(rapid.Byte(), 0, 40).Draw(t, "random")))
			}
		}
		c.Origin = "generated-sequence"
	case k <= 6:
		c.Mode = "client"
		c.Pipelining = false
		resps := validResponses(c.Enc)
		n := rapid.IntRange(1, 6).Draw(t, "nframes")
		for i := 0; i < n; i++ {
			base := resps[rapid.SampledFrom(respOrder).Draw(t, "base")]
			if rapid.IntRange(0, 3).Draw(t, "how") == 0 {
				c.Frames = append(c.Frames, hex.EncodeToString(rapid.SliceOfN(rapid.Byte(), 0, 40).Draw(t, "random")))
			} else {
				c.Frames = append(c.Frames, hex.EncodeToString(mutate(base)))
			}
		}
		c.Pending = rapid.IntRange(0, 4).Draw(t, "pending")
		c.Stream = rapid.Bool().Draw(t, "stream")
		c.Origin = "generated-sequence"
	case k == 7:
		c.Mode = "clientstorm"
		c.Callers = rapid.IntRange(1, 12).Draw(t, "callers")
		c.CliPipe = rapid.IntRange(0, 3).Draw(t, "cli_pipe") > 0
		c.CutAfter = rapid.SampledFrom([]int{0, 1, 3, 20, 100}).Draw(t, "cut_after")
		c.HardCut = rapid.Bool().Draw(t, "hard_cut")
		c.Volley = rapid.SampledFrom([]int{1, 8, 8, 32}).Draw(t, "volley")
		c.Rounds = rapid.IntRange(1, 60).Draw(t, "rounds")
		c.Origin = "client-storm"
	default:
		c.Mode = "burst"
		n := rapid.IntRange(1, 64).Draw(t, "n")
		kinds := []string{"call", "call", "gated", "ping", "sopen", "sdata", "sclose", "unknown"}
		if c.Pipelining {
			kinds = []string{"call", "call", "ping", "sopen", "sdata", "sclose", "unknown"}
		}
		for i := 0; i < n; i++ {
			c.Burst = append(c.Burst, rapid.SampledFrom(kinds).Draw(t, "kind"))
		}
		c.EOFAt = rapid.IntRange(1, n).Draw(t, "eof_at")
		c.Quiet = rapid.IntRange(0, 3).Draw(t, "quiet") == 0
		c.Origin = "burst"
		if rapid.IntRange(0, 3).Draw(t, "unix") == 0 {
			c.Unix = true
			c.Poll = rapid.Bool().Draw(t, "poll")
			c.Origin = "burst-unix"
		}
	}
	return c
}

const bound = 5 * time.Second

func decodeFrames(c Case) ([][]byte, bool) {
	var out [][]byte
	for _, h := range c.Frames {
		b, err := hex.DecodeString(h)
		if err != nil {
			return nil, false
		}
		out = append(out, b)
	}
	return out, true
}

func validFrameSet(enc string) map[string]bool {
	m := map[string]bool{}
	for _, f := range validRequests(enc) {
		m[string(f)] = true
	}
	for _, f := range validResponses(enc) {
		m[string(f)] = true
	}
	return m
}

func run(c Case) kit.Outcome {
	if c.Enc != "default" && kit.HeaderEncoder(c.Enc) == nil {
		return kit.Outcome{Invalid: true}
	}
	switch c.Mode {
	case "frames":
		return runFrames(c)
	case "burst":
		return runBurst(c)
	case "client":
		return runClient(c)
	case "clientstorm":
		return runClientStorm(c)
	}
	return kit.Outcome{Invalid: true}
}

// runClientStorm: 1-6 goroutines keep issuing calls (Go / Call / stream writes) on one real Conn -
// optionally with client pipelining - to a real Server over a frame link; after CutAfter completed
// calls the peer disconnects (clean EOF or a read error) while the callers carry on for a while.
// The client process must survive (the driver sees a dead worker) and every caller must get an
// answer or an error.
func runClientStorm(c Case) kit.Outcome {
	if c.Callers < 1 || c.Callers > 16 || c.CutAfter < 0 || c.CutAfter > 10000 || c.Volley < 0 || c.Volley > 4096 || c.Rounds < 0 || c.Rounds > 200 {
		return kit.Outcome{Invalid: true}
	}
	// the storm needs real parallelism whatever GOMAXPROCS this worker shard was given
	if prev := runtime.GOMAXPROCS(0); prev < 8 {
		runtime.GOMAXPROCS(8)
		defer runtime.GOMAXPROCS(prev)
	}
	out := kit.Outcome{}
	for r := 0; r < c.Rounds || r == 0; r++ {
		o := runClientStormRound(c)
		if o.Violation != "" || o.Undecided != "" {
			return o
		}
		if r == 0 {
			out = o
		} else {
			out.Counters["storm_calls"] += o.Counters["storm_calls"]
		}
	}
	out.Counters["storm_rounds"] = c.Rounds
	return out
}

func runClientStormRound(c Case) kit.Outcome {
	sess, err := kit.NewSession(kit.Modes{Enc: c.Enc, Link: "frame", SrvPipelining: c.Pipelining, SrvDirect: c.DirectIO, CliPipelining: c.CliPipe, CliDirect: c.DirectIO})
	if err != nil {
		return kit.Undecided("%v", err)
	}
	defer sess.Close()
	conn, err := sess.Dial()
	if err != nil {
		return kit.Undecided("%v", err)
	}
	link := sess.Links[0]
	var completed, afterCut int64
	var cut int32
	stop := make(chan struct{})
	var wg sync.WaitGroup
	for g := 0; g < c.Callers; g++ {
		wg.Add(1)
		go func(g int) {
			defer wg.Done()
			var st rpc.Stream
			if g == 1 {
				st, _ = conn.NewStream("S.Stream")
			}
			for i := 0; ; i++ {
				select {
				case <-stop:
					return
				default:
				}
				id := uint64(g+1)<<32 | uint64(i+1)
				args := kit.MakePayload(id, kit.DirEcho, uint32(i), 32)
				var reply []byte
				switch {
				case st != nil && i%3 == 2:
					if st.WriteMessage(&args) == nil {
						st.ReadMessage(nil, &reply)
					}
				case i%2 == 0:
					// a volley of asynchronous calls issued back to back, then collected
					volley := c.Volley
					if volley < 1 {
						volley = 8
					}
					done := make(chan *rpc.Call, volley)
					replies := make([][]byte, volley)
					for k := 0; k < volley; k++ {
						conn.Go(kit.Methods[(i+k)%4], &args, &replies[k], done)
					}
					for k := 0; k < volley; k++ {
						select {
						case <-done:
						case <-time.After(bound):
							atomic.AddInt64(&afterCut, 1<<40) // a caller got stuck
							return
						}
					}
				default:
					conn.Call(kit.Methods[i%4], &args, &reply)
				}
				atomic.AddInt64(&completed, 1)
				if atomic.LoadInt32(&cut) == 1 {
					atomic.AddInt64(&afterCut, 1)
				}
			}
		}(g)
	}
	deadline := time.Now().Add(bound)
	for atomic.LoadInt64(&completed) < int64(c.CutAfter) && time.Now().Before(deadline) {
		time.Sleep(20 * time.Microsecond)
	}
	atomic.StoreInt32(&cut, 1)
	if c.HardCut {
		link.C.InjectReadError(errors.New("read: connection reset by peer"), true)
	} else {
		link.S.Close()
	}
	// the callers carry on against the dead connection for a moment
	for atomic.LoadInt64(&afterCut) < int64(50*c.Callers) && time.Now().Before(deadline) {
		time.Sleep(20 * time.Microsecond)
	}
	close(stop)
	done := make(chan struct{})
	go func() { wg.Wait(); close(done) }()
	select {
	case <-done:
	case <-time.After(2 * bound):
		o := kit.Fail("callers-stuck", "callers of a Conn whose peer disconnected did not all return within %v", 2*bound)
		o.Sig, o.Timing = c.Origin, true
		return o
	}
	if atomic.LoadInt64(&afterCut) >= 1<<40 {
		o := kit.Fail("callers-stuck", "a Go call issued around the disconnect was never signalled within %v", bound)
		o.Sig, o.Timing = c.Origin, true
		return o
	}
	out := kit.Outcome{Sig: c.Origin, Classes: []string{"client-side", "enc=" + c.Enc, originClass(c.Origin)}, Counters: map[string]int{"storm_calls": int(atomic.LoadInt64(&completed))}}
	if c.Callers >= 2 {
		out.Nontrivial = true
	}
	if c.CliPipe {
		out.Classes = append(out.Classes, "client-pipelining")
	}
	return out
}

// probe sends a well-formed request on the connection and waits for its answer.
func probe(cli *kit.ScriptClient, seq uint64) (answered bool, ended bool, wrong string) {
	args := kit.MakePayload(seq, kit.DirEcho, 77, 40)
	if err := cli.Send(kit.ReqHeader{Seq: seq, Method: "S.EchoRet", Args: args}); err != nil {
		return false, true, ""
	}
	deadline := time.Now().Add(bound)
	for {
		for _, r := range cli.Responses() {
			if r.DecErr == "" && r.Seq == seq && (r.Error != "" || len(r.Reply) == len(args)) {
				if r.Error != "" || !bytes.Equal(r.Reply, kit.Transform(args)) {
					// an earlier hostile frame may legitimately have used this sequence number; only a
					// wrong reply to the probe itself counts
					if r.Error == "" {
						return true, false, fmt.Sprintf("probe answered with a wrong reply %s", kit.Brief(r.Reply))
					}
					continue
				}
				return true, false, ""
			}
		}
		if cli.Ended() {
			return false, true, ""
		}
		if time.Now().After(deadline) {
			return false, false, ""
		}
		time.Sleep(100 * time.Microsecond)
	}
}

func runFrames(c Case) kit.Outcome {
	frames, ok := decodeFrames(c)
	if !ok || len(frames) == 0 || len(frames) > 64 {
		return kit.Outcome{Invalid: true}
	}
	env := kit.NewEnv()
	env.GateWait = 2 * time.Second
	srv := kit.NewServer(env, c.Pipelining, c.DirectIO)
	link := kit.NewFrameLink()
	done := kit.ServeLink(srv, link, c.Enc, c.DirectIO)
	cli := kit.NewScriptClient(link, c.Enc, nil)
	valid := validFrameSet(c.Enc)
	hostile := false
	for _, f := range frames {
		if !valid[string(f)] && len(f) > 0 {
			hostile = true
		}
		if err := cli.SendRaw(f); err != nil {
			break
		}
	}
	out := kit.Outcome{Sig: c.Origin, Classes: []string{"server-side", "enc=" + c.Enc, originClass(c.Origin)}, Nontrivial: hostile}
	// same connection, if it survived
	answered, ended, wrong := probe(cli, probeSeq)
	if wrong != "" {
		o := kit.Fail("probe-wrong", "after the hostile frames a well-formed request on the same connection was %s", wrong)
		o.Sig = c.Origin
		return o
	}
	if !answered && !ended {
		o := kit.Fail("probe-unanswered", "the connection survived the hostile frames (not closed by the server) but a later well-formed request on it was not answered within %v", bound)
		o.Sig, o.Timing = c.Origin, true
		return o
	}
	if ended {
		out.Classes = append(out.Classes, "connection-closed-by-server")
	}
	// a second connection is always served
	link2 := kit.NewFrameLink()
	done2 := kit.ServeLink(srv, link2, c.Enc, c.DirectIO)
	cli2 := kit.NewScriptClient(link2, c.Enc, nil)
	a2, _, w2 := probe(cli2, probeSeq+1)
	if !a2 || w2 != "" {
		o := kit.Fail("other-connection-unserved", "after hostile frames on one connection a well-formed request on another connection was not served (%s)", w2)
		o.Sig, o.Timing = c.Origin, true
		return o
	}
	env.OpenAll()
	link.C.Close()
	link2.C.Close()
	for _, d := range []chan struct{}{done, done2} {
		select {
		case <-d:
		case <-time.After(bound):
			out.Counters = map[string]int{"servecodec_slow_return": 1}
		}
	}
	return out
}

func originClass(o string) string {
	for i := 0; i < len(o); i++ {
		if o[i] == ':' {
			return "origin=" + o[:i]
		}
	}
	return "origin=" + o
}

func runBurst(c Case) kit.Outcome {
	if len(c.Burst) == 0 || len(c.Burst) > 256 || c.EOFAt < 1 || c.EOFAt > len(c.Burst) {
		return kit.Outcome{Invalid: true}
	}
	if c.Unix {
		return runBurstUnix(c)
	}
	env := kit.NewEnv()
	env.GateWait = 2 * time.Second
	srv := kit.NewServer(env, c.Pipelining, c.DirectIO)
	link := kit.NewFrameLink()
	link.S.SetHold(true)
	done := kit.ServeLink(srv, link, c.Enc, c.DirectIO)
	cli := kit.NewScriptClient(link, c.Enc, nil)
	streamSeq := uint64(0)
	haveStream := false
	for i, k := range c.Burst[:c.EOFAt] {
		seq := uint64(i + 1)
		id := uint64(i + 1)
		var h kit.ReqHeader
		switch k {
		case "call":
			h = kit.ReqHeader{Seq: seq, Method: kit.Methods[i%4], Args: kit.MakePayload(id, kit.DirEcho, 3, 30)}
		case "gated":
			if c.Pipelining {
				return kit.Outcome{Invalid: true}
			}
			h = kit.ReqHeader{Seq: seq, Method: kit.Methods[i%4], Args: kit.MakePayload(id, kit.DirGate, 3, 30)}
		case "unknown":
			h = kit.ReqHeader{Seq: seq, Method: "S.Nope", Args: kit.MakePayload(id, kit.DirEcho, 3, 30)}
		case "ping":
			h = kit.ReqHeader{Seq: seq, Upgrade: []byte{kit.RefUpgrade(true, true, true, 0)}}
		case "sopen":
			if haveStream {
				continue
			}
			haveStream, streamSeq = true, seq
			h = kit.ReqHeader{Seq: seq, Method: "S.Stream", Upgrade: []byte{kit.RefUpgrade(true, true, false, kit.StreamOpen)}}
		case "sdata":
			if !haveStream {
				continue
			}
			h = kit.ReqHeader{Seq: streamSeq, Args: kit.MakePayload(id, kit.DirEcho, 3, 30), Upgrade: []byte{kit.RefUpgrade(false, false, false, kit.StreamData)}}
		case "sclose":
			if !haveStream {
				continue
			}
			haveStream = false
			h = kit.ReqHeader{Seq: streamSeq, Upgrade: []byte{kit.RefUpgrade(true, true, false, kit.StreamClose)}}
		default:
			return kit.Outcome{Invalid: true}
		}
		cli.Send(h)
	}
	// the whole burst reaches the server at once, the disconnect right behind it
	link.S.Release(-1)
	if c.Quiet {
		link.S.WaitReaderIdle(bound)
		time.Sleep(300 * time.Microsecond)
	}
	link.C.Close()
	go func() {
		time.Sleep(500 * time.Microsecond)
		env.OpenAll()
	}()
	out := kit.Outcome{Sig: "burst", Classes: []string{"burst", "enc=" + c.Enc}, Nontrivial: c.EOFAt >= 2}
	select {
	case <-done:
	case <-time.After(bound + 2*time.Second):
		out.Counters = map[string]int{"servecodec_slow_return": 1}
	}
	// the server still serves another connection
	link2 := kit.NewFrameLink()
	done2 := kit.ServeLink(srv, link2, c.Enc, c.DirectIO)
	cli2 := kit.NewScriptClient(link2, c.Enc, nil)
	a2, _, w2 := probe(cli2, probeSeq)
	if !a2 || w2 != "" {
		o := kit.Fail("other-connection-unserved", "after a burst + disconnect on one connection a well-formed request on another connection was not served (%s)", w2)
		o.Sig, o.Timing = "burst", true
		return o
	}
	link2.C.Close()
	select {
	case <-done2:
	case <-time.After(bound):
	}
	if !c.Quiet {
		out.Classes = append(out.Classes, "eof-behind-queued-requests")
	}
	return out
}

// burstFrames builds the request headers of a burst prefix.
func burstFrames(c Case) ([]kit.ReqHeader, bool) {
	var out []kit.ReqHeader
	streamSeq, haveStream := uint64(0), false
	for i, k := range c.Burst[:c.EOFAt] {
		seq, id := uint64(i+1), uint64(i+1)
		switch k {
		case "call":
			out = append(out, kit.ReqHeader{Seq: seq, Method: kit.Methods[i%4], Args: kit.MakePayload(id, kit.DirEcho, 3, 30)})
		case "gated":
			if c.Pipelining {
				return nil, false
			}
			out = append(out, kit.ReqHeader{Seq: seq, Method: kit.Methods[i%4], Args: kit.MakePayload(id, kit.DirGate, 3, 30)})
		case "unknown":
			out = append(out, kit.ReqHeader{Seq: seq, Method: "S.Nope", Args: kit.MakePayload(id, kit.DirEcho, 3, 30)})
		case "ping":
			out = append(out, kit.ReqHeader{Seq: seq, Upgrade: []byte{kit.RefUpgrade(true, true, true, 0)}})
		case "sopen":
			if haveStream {
				continue
			}
			haveStream, streamSeq = true, seq
			out = append(out, kit.ReqHeader{Seq: seq, Method: "S.Stream", Upgrade: []byte{kit.RefUpgrade(true, true, false, kit.StreamOpen)}})
		case "sdata":
			if !haveStream {
				continue
			}
			out = append(out, kit.ReqHeader{Seq: streamSeq, Args: kit.MakePayload(id, kit.DirEcho, 3, 30), Upgrade: []byte{kit.RefUpgrade(false, false, false, kit.StreamData)}})
		case "sclose":
			if !haveStream {
				continue
			}
			haveStream = false
			out = append(out, kit.ReqHeader{Seq: streamSeq, Upgrade: []byte{kit.RefUpgrade(true, true, false, kit.StreamClose)}})
		default:
			return nil, false
		}
	}
	return out, true
}

// runBurstUnix: the burst reaches a real unix-socket server (optionally poll mode) in one write,
// the disconnect follows at once (or after a quiet moment); another connection is probed.
func runBurstUnix(c Case) kit.Outcome {
	reqs, ok := burstFrames(c)
	if !ok {
		return kit.Outcome{Invalid: true}
	}
	m := kit.Modes{Enc: c.Enc, SrvPipelining: c.Pipelining, SrvDirect: c.DirectIO, Link: "unix", Poll: c.Poll}
	sess, err := kit.NewSession(m)
	if err != nil {
		return kit.Undecided("%v", err)
	}
	sess.Env.GateWait = 2 * time.Second
	defer sess.Close()
	rc, err := kit.DialRaw("unix", sess.Addr)
	if err != nil {
		return kit.Undecided("dial: %v", err)
	}
	cli := kit.NewScriptClientOn(rc, c.Enc, nil)
	cli.SendBatch(reqs)
	if c.Quiet {
		time.Sleep(2 * time.Millisecond)
	}
	cli.Close()
	go func() {
		time.Sleep(500 * time.Microsecond)
		sess.Env.OpenAll()
	}()
	out := kit.Outcome{Sig: "burst-unix", Classes: []string{"burst", "unix-sockets", "enc=" + c.Enc}, Nontrivial: len(reqs) >= 2}
	if c.Poll {
		out.Classes = append(out.Classes, "poll")
	}
	rc2, err := kit.DialRaw("unix", sess.Addr)
	if err != nil {
		o := kit.Fail("other-connection-unserved", "after a burst + disconnect the server no longer accepts connections: %v", err)
		o.Sig, o.Timing = "burst-unix", true
		return o
	}
	cli2 := kit.NewScriptClientOn(rc2, c.Enc, nil)
	defer cli2.Close()
	a2, _, w2 := probe(cli2, probeSeq)
	if !a2 || w2 != "" {
		o := kit.Fail("other-connection-unserved", "after a burst + disconnect on one connection a well-formed request on another connection was not served (%s) [unix sockets, poll=%v]", w2, c.Poll)
		o.Sig, o.Timing = "burst-unix", true
		return o
	}
	return out
}

// runClient: a real Conn with pending calls (and optionally an open stream) receives hostile
// response frames from a scripted server.
// answersSeq reports whether the library's own header decoder or the reference decoder accepts
// the frame as a response carrying the given sequence number.
func answersSeq(enc string, f []byte, seq uint64) bool {
	if h, err := kit.RefDecodeResponse(enc, f); err == nil && h.Seq == seq {
		return true
	}
	name := enc
	if name == "default" {
		name = "pb"
	}
	if e := kit.HeaderEncoder(name); e != nil {
		res := e.NewResponse()
		res.Reset()
		if err := e.NewCodec().Unmarshal(append([]byte(nil), f...), res); err == nil && res.GetSeq() == seq {
			return true
		}
	}
	return false
}

func runClient(c Case) kit.Outcome {
	frames, ok := decodeFrames(c)
	if !ok || len(frames) == 0 || len(frames) > 64 || c.Pending < 0 || c.Pending > 32 {
		return kit.Outcome{Invalid: true}
	}
	link := kit.NewFrameLink()
	srv := kit.NewScriptServer(link, c.Enc)
	conn := kit.NewLinkConn(link, c.Enc)
	conn.SetDirectIO(c.DirectIO)
	defer conn.Close()
	type pend struct {
		call  *rpc.Call
		args  []byte
		reply []byte
	}
	var ps []*pend
	for i := 0; i < c.Pending; i++ {
		p := &pend{args: kit.MakePayload(uint64(i+1), 0, 5, 24)}
		p.call = conn.Go("S.Echo", &p.args, &p.reply, make(chan *rpc.Call, 2))
		ps = append(ps, p)
	}
	want := c.Pending
	var st rpc.Stream
	if c.Stream {
		stc := make(chan rpc.Stream, 1)
		go func() {
			s, _ := conn.NewStream("S.Stream")
			stc <- s
		}()
		if !srv.WaitRequests(c.Pending+1, bound) {
			return kit.Undecided("stream open request did not reach the scripted server")
		}
		reqs := srv.Requests()
		srv.Respond(kit.ResHeader{Seq: reqs[len(reqs)-1].Seq})
		select {
		case st = <-stc:
		case <-time.After(bound):
			return kit.Undecided("NewStream did not return after its acknowledgement")
		}
		want++
	}
	if !srv.WaitRequests(want, bound) {
		return kit.Undecided("requests did not reach the scripted server")
	}
	valid := validFrameSet(c.Enc)
	hostile := false
	for _, f := range frames {
		if !valid[string(f)] && len(f) > 0 {
			hostile = true
		}
		srv.RespondRaw(f)
	}
	link.C.WaitReaderIdle(bound)
	time.Sleep(300 * time.Microsecond)
	// a later well-formed exchange on the same connection, if it survived
	args := kit.MakePayload(500, 0, 9, 40)
	var reply []byte
	call := conn.Go("S.Echo", &args, &reply, make(chan *rpc.Call, 2))
	collision := false
	if srv.WaitRequests(want+1, bound) {
		reqs := srv.Requests()
		last := reqs[len(reqs)-1]
		// A hostile frame that is itself a decodable response for the very sequence number the
		// later call got may legitimately complete that call if the client's (asynchronous)
		// dispatch had not processed it yet: such a case does not judge the reply.
		for _, f := range frames {
			if answersSeq(c.Enc, f, last.Seq) {
				collision = true
			}
		}
		srv.Respond(kit.ResHeader{Seq: last.Seq, Reply: kit.Transform(args)})
	}
	out := kit.Outcome{Sig: c.Origin, Classes: []string{"client-side", "enc=" + c.Enc, originClass(c.Origin)}, Nontrivial: hostile}
	if collision {
		out.Counters = map[string]int{"hostile_frame_answers_later_sequence_number": 1}
	}
	select {
	case <-call.Done:
		if call.Error == nil && !bytes.Equal(reply, kit.Transform(args)) && !collision {
			o := kit.Fail("probe-wrong", "after hostile response frames a later call on the same connection completed with a wrong reply")
			o.Sig = c.Origin
			return o
		}
	case <-time.After(bound):
		o := kit.Fail("probe-unanswered", "after hostile response frames a later well-formed call on the same connection did not complete within %v although its response was delivered", bound)
		o.Sig, o.Timing = c.Origin, true
		return o
	}
	if st != nil {
		go st.Close()
	}
	return out
}

var prop = kit.Property[Case]{
	ID:    "C08",
	Level: "fault_enumeration",
	Rule:  "enumeration (per header encoder, cycling server modes): hostile constants; every truncation and single-byte corruptions (14 hostile values per position in quick, all 255 in thorough) of a corpus of 8 valid request frames (call, return-style call, unknown method, ping, stream open/data/close, large sequence number) delivered to a real Server, and of 4 valid response frames delivered to a real Conn with pending calls and an open stream; every upgrade byte 0-255 x {known, unknown, stream, return-style method, bare} x {no stream, open stream id, other id}; a 12-request burst (calls, gated handlers, pings, stream traffic) followed by a disconnect after every prefix, quietly or right behind the queued requests, in every non-poll server mode. Plus rapid-generated sequences mixing valid, mutated (truncate/overwrite/insert/delete/bit-flip) and random frames, and random bursts of 1-64 requests with a drawn disconnect point. Oracle: the worker process stays alive (panics in library goroutines kill it; the driver reads the journal, confirms and shrinks), a later well-formed request on the same connection (if the server did not close it) and on another connection is answered correctly. Non-trivial: at least one frame differs from every valid frame and is non-empty, or a burst of >= 2 requests before the disconnect; distinct by SHA-1 of the case.",
	Assumptions: []string{
		"frame level only: the length-prefix framing (hslam/socket) is a dependency; its panic on an over-long varint prefix is out of scope",
		"poll-mode servers need real sockets: bursts + disconnects are also run over unix sockets against non-poll and poll-mode servers; the frame mutations run against non-poll ServeCodec only",
	},
	Gen:            gen,
	Enum:           enum,
	EnumExhaustive: []string{"every truncation of every corpus frame, per encoder", "hostile length prefixes (integer boundaries incl. 2^64-1..2^64-21) at every length-delimited field position x 7 tail lengths, per encoder and side", "all 256 upgrade bytes x method kinds x stream states, per encoder", "disconnect after every prefix of the fixed burst, per non-poll server mode and encoder", "thorough: all 255 single-byte corruptions per position of every corpus frame"},
	Run:            run,
}

func TestProperty(t *testing.T) { kit.Check(t, prop) }
