package c14

import (
	"fmt"
	"sync"
	"testing"
	"time"

	"github.com/hslam/rpc"
	"pgregory.net/rapid"
	"verif/harness/kit"
)

// Op is one step of a history.
type Op struct {
	K     string `json:"k"` // call | sleep | kill | restart | bg
	A     int    `json:"a,omitempty"`
	Form  string `json:"form,omitempty"` // call | ctx | ping | stream (synchronous forms)
	Ticks int    `json:"ticks,omitempty"`
	N     int    `json:"n,omitempty"`
}

// Case is a Transport configuration plus a history of a sequential caller.
type Case struct {
	Cfg kit.TCfg `json:"cfg"`
	Ops []Op     `json:"ops"`
}

var syncForms = []string{"call", "call", "ctx", "ping", "stream"}

func gen(t *rapid.T) Case {
	c := Case{Cfg: kit.TCfg{
		Addrs:     rapid.IntRange(2, 4).Draw(t, "addrs"),
		Max:       rapid.SampledFrom([]int{0, 1, 1, 2, 3}).Draw(t, "max"),
		MaxIdle:   rapid.SampledFrom([]int{0, 1, 2, 3}).Draw(t, "max_idle"),
		KeepAlive: rapid.IntRange(2, 10).Draw(t, "keep_alive"),
		TickUS:    2000,
		Enc:       rapid.SampledFrom(kit.Encoders).Draw(t, "enc"),
	}}
	c.Cfg.IdleTO = c.Cfg.KeepAlive + rapid.SampledFrom([]int{-1, 2, 10, 40}).Draw(t, "idle_delta")
	if c.Cfg.IdleTO < 1 {
		c.Cfg.IdleTO = 1
	}
	n := rapid.IntRange(4, 30).Draw(t, "nops")
	spacing := func() int {
		switch rapid.IntRange(0, 3).Draw(t, "spacing") {
		case 0:
			return 1
		case 1:
			return c.Cfg.KeepAlive
		case 2:
			return c.Cfg.KeepAlive + 3
		default:
			return c.Cfg.IdleTO + 4
		}
	}
	if rapid.Bool().Draw(t, "scenario") {
		// the shape that matters most: pool a connection, kill, (touch the dead connection), wait
		// longer than KeepAlive, restart
		a := rapid.IntRange(0, c.Cfg.Addrs-1).Draw(t, "sa")
		// as many calls as the pool may hold connections (every call dials until the pool is full)
		pool := rapid.IntRange(1, 3).Draw(t, "pool_calls")
		for k := 0; k < pool; k++ {
			c.Ops = append(c.Ops, Op{K: "call", A: a, Form: rapid.SampledFrom(syncForms).Draw(t, "sform")})
		}
		c.Ops = append(c.Ops, Op{K: "kill", A: a})
		// the dead connections are noticed one at a time: 0..pool failing calls before the pause
		touch := rapid.IntRange(0, pool).Draw(t, "touch")
		for k := 0; k < touch; k++ {
			c.Ops = append(c.Ops, Op{K: "call", A: a, Form: rapid.SampledFrom(syncForms).Draw(t, "sform2")})
		}
		c.Ops = append(c.Ops, Op{K: "sleep", Ticks: spacing()})
		if rapid.Bool().Draw(t, "restart_first") {
			c.Ops = append(c.Ops, Op{K: "restart", A: a}, Op{K: "sleep", Ticks: spacing()})
		}
	}
	for i := 0; i < n; i++ {
		a := rapid.IntRange(0, c.Cfg.Addrs-1).Draw(t, "a")
		k := rapid.IntRange(0, 19).Draw(t, "k")
		switch {
		case k <= 8:
			c.Ops = append(c.Ops, Op{K: "call", A: a, Form: rapid.SampledFrom(syncForms).Draw(t, "form")})
		case k <= 12:
			c.Ops = append(c.Ops, Op{K: "sleep", Ticks: spacing()})
		case k <= 14:
			c.Ops = append(c.Ops, Op{K: "kill", A: a})
		case k <= 17:
			c.Ops = append(c.Ops, Op{K: "restart", A: a})
		default:
			c.Ops = append(c.Ops, Op{K: "bg", A: a, N: rapid.IntRange(2, 6).Draw(t, "n")})
		}
	}
	return c
}

const (
	bound  = 10 * time.Second
	prompt = 2 * time.Second
)

type addrState struct {
	openAtKill   int  // pooled client connections that existed when the server was killed
	shutdowns    int  // ErrShutdown failures seen since the kill
	recovering   bool // restarted, no success yet
	sinceRestart int  // failures of the sequential caller since the restart
}

func run(c Case) kit.Outcome {
	if !c.Cfg.Valid() || c.Cfg.Addrs < 1 || len(c.Ops) == 0 || len(c.Ops) > 200 {
		return kit.Outcome{Invalid: true}
	}
	for _, op := range c.Ops {
		if op.A < 0 || op.A >= c.Cfg.Addrs || op.N < 0 || op.N > 32 || op.Ticks < 0 || op.Ticks > 1000 {
			return kit.Outcome{Invalid: true}
		}
		switch op.K {
		case "call":
			switch op.Form {
			case "call", "ctx", "ping", "stream":
			default:
				return kit.Outcome{Invalid: true}
			}
		case "sleep", "kill", "restart", "bg":
		default:
			return kit.Outcome{Invalid: true}
		}
	}
	w, err := kit.NewTWorld(c.Cfg)
	if err != nil {
		return kit.Undecided("%v", err)
	}
	defer w.Close()
	tick := c.Cfg.Tick()
	var hist []string
	h := func(f string, a ...interface{}) { hist = append(hist, fmt.Sprintf(f, a...)) }
	fail := func(o kit.Outcome) kit.Outcome { o.History = hist; return o }
	st := make([]addrState, c.Cfg.Addrs)
	var bgWG sync.WaitGroup
	defer bgWG.Wait()
	var idMu sync.Mutex
	sent := map[uint64]int{} // id -> requested address
	nontrivialKill, spacedAfter := false, false
	lastKillHadPool := make([]bool, c.Cfg.Addrs)

	// one synchronous operation of the sequential caller
	do := func(a int, form string) (error, time.Duration, uint64, bool) {
		if form == "stream" {
			rc := make(chan error, 1)
			start := time.Now()
			go func() {
				s, err := w.Tr.NewStream(w.Addrs[a], "S.Stream")
				if err == nil && s != nil {
					go s.Close()
				}
				rc <- err
			}()
			select {
			case err := <-rc:
				return err, time.Since(start), 0, true
			case <-time.After(bound):
				return nil, bound, 0, false
			}
		}
		r := w.Do(a, form, kit.DirEcho, bound)
		if r.Timeout {
			return nil, r.Took, r.ID, false
		}
		if form != "ping" {
			idMu.Lock()
			sent[r.ID] = a
			idMu.Unlock()
		}
		if r.Err == nil && !r.ReplyOK {
			return fmt.Errorf("harness: wrong reply"), r.Took, r.ID, true
		}
		return r.Err, r.Took, r.ID, true
	}
	judge := func(a int, form string, err error, took time.Duration) *kit.Outcome {
		s := &st[a]
		up := w.Up(a)
		switch {
		case err == nil:
			if !up {
				o := kit.Fail("success-while-down", "a %s to %s succeeded although its server is down", form, w.Addrs[a])
				return &o
			}
			// the budget of one failure per connection pooled at the kill stays: other stale
			// connections of the pool may still be met later (round-robin over the pool)
			s.recovering, s.sinceRestart = false, 0
		case err == rpc.ErrShutdown:
			s.shutdowns++
			if s.shutdowns > s.openAtKill {
				o := kit.Fail("dead-connection-reused", "%s to %s failed with ErrShutdown %d times since its server was killed, but only %d pooled connections existed then: a connection on which a call had already failed was handed out again (server up: %v)", form, w.Addrs[a], s.shutdowns, s.openAtKill, up)
				o.Sig = fmt.Sprintf("up=%v", up)
				return &o
			}
			if s.recovering {
				s.sinceRestart++
			}
		case err == rpc.ErrDial:
			if up {
				o := kit.Fail("dial-failed-while-up", "%s to %s failed with ErrDial although its server is up and listening", form, w.Addrs[a])
				return &o
			}
		default:
			o := kit.Fail("unexpected-error", "%s to %s failed with %v (server up: %v)", form, w.Addrs[a], err, up)
			return &o
		}
		if !up && took > prompt {
			o := kit.Fail("slow-failure-while-down", "%s to the unreachable %s took %v to fail", form, w.Addrs[a], took)
			o.Timing = true
			return &o
		}
		return nil
	}
	for _, op := range c.Ops {
		switch op.K {
		case "call":
			err, took, _, ok := do(op.A, op.Form)
			if !ok {
				return fail(kit.Undecided("%s to %s did not return within %v", op.Form, w.Addrs[op.A], bound))
			}
			h("%s(%d) -> %v (up=%v)", op.Form, op.A, err, w.Up(op.A))
			if o := judge(op.A, op.Form, err, took); o != nil {
				return fail(*o)
			}
		case "sleep":
			time.Sleep(time.Duration(op.Ticks) * tick)
			h("sleep %d ticks", op.Ticks)
			if op.Ticks > c.Cfg.KeepAlive {
				for a := range st {
					if lastKillHadPool[a] {
						spacedAfter = true
					}
				}
			}
		case "kill":
			if w.Up(op.A) {
				bgWG.Wait()
				n := w.Kill(op.A)
				st[op.A] = addrState{openAtKill: n}
				lastKillHadPool[op.A] = n > 0
				if n > 0 {
					nontrivialKill = true
				}
				h("kill %d (%d pooled connections)", op.A, n)
			}
		case "restart":
			if !w.Up(op.A) {
				if err := w.Restart(op.A); err != nil {
					return kit.Undecided("%v", err)
				}
				st[op.A].recovering = true
				h("restart %d", op.A)
			}
		case "bg":
			// asynchronous traffic only contributes load; its results are checked for routing only
			for i := 0; i < op.N; i++ {
				bgWG.Add(1)
				go func(i int) {
					defer bgWG.Done()
					form := "go"
					if i%3 == 2 {
						form = "ping"
					}
					r := w.Do(op.A, form, kit.DirEcho, bound)
					if form != "ping" {
						idMu.Lock()
						sent[r.ID] = op.A
						idMu.Unlock()
					}
				}(i)
			}
			bgWG.Wait()
			// background failures consume dead pooled connections too
			st[op.A].openAtKill += 0
			h("bg %d x go/ping(%d)", op.N, op.A)
		}
	}
	bgWG.Wait()
	// recovery: every address whose server is up must serve the sequential caller after at most one
	// failure per connection that was pooled when it was killed
	for a := range st {
		if !w.Up(a) {
			continue
		}
		okSeen := false
		for k := 0; k <= st[a].openAtKill+1; k++ {
			err, took, _, ok := do(a, "call")
			if !ok {
				return fail(kit.Undecided("recovery call to %s did not return", w.Addrs[a]))
			}
			h("recovery call(%d) -> %v", a, err)
			if err == nil {
				okSeen = true
				break
			}
			if o := judge(a, "call", err, took); o != nil {
				return fail(*o)
			}
		}
		if !okSeen {
			return fail(kit.Fail("no-recovery", "the server of %s is up again but %d consecutive calls of the sequential caller failed (only %d connections were pooled when it was killed)", w.Addrs[a], st[a].openAtKill+2, st[a].openAtKill))
		}
	}
	// routing: every executed call ran on the requested address only
	time.Sleep(time.Millisecond)
	idMu.Lock()
	defer idMu.Unlock()
	for id, a := range sent {
		for _, at := range w.ExecutedAt(id) {
			if at != a {
				return fail(kit.Fail("wrong-address", "call %d was made for %s but executed on the server of %s", id, w.Addrs[a], w.Addrs[at]))
			}
		}
	}
	out := kit.Outcome{Counters: map[string]int{"ops": len(c.Ops), "calls": len(sent)}}
	if nontrivialKill && spacedAfter {
		out.Nontrivial = true
		out.Classes = append(out.Classes, "kill-with-pool-then-spacing>keepalive")
	}
	if nontrivialKill {
		out.Classes = append(out.Classes, "kill-with-pooled-connection")
	}
	return out
}

var prop = kit.Property[Case]{
	ID:    "C14",
	Level: "exploration",
	Rule:  "rapid-generated histories (4-30 steps) of a sequential synchronous caller (Call, CallWithContext, Ping, NewStream) through a real Transport over the counting in-memory network with 2-4 servers (each with its own execution log), housekeeping tick 2 ms, KeepAlive 2-10 ticks, IdleConnTimeout around and above it, pool limits 0-3: calls, sleeps drawn from {1 tick, KeepAlive, KeepAlive+3, IdleConnTimeout+4}, kill and restart of servers, bursts of background Go calls and pings. Oracle: a call executes only on the server of the requested address; since a kill, at most as many ErrShutdown failures as client connections were pooled at the kill (a connection that already failed is never handed out again); while the server is down calls fail with ErrDial (or that ErrShutdown) within 2 s; once it is up again the caller succeeds after at most one failure per pooled connection - also after the history, by recovery probes. Non-trivial: a kill with >= 1 pooled connection followed by a sleep longer than KeepAlive; distinct by SHA-1 of the case.",
	Assumptions: []string{
		"the recovery bound is asserted for the synchronous call forms (the statement's sequential caller); asynchronous calls only contribute load",
		"'promptly' while down = within 2 s, must reproduce in isolation (rule T)",
	},
	Gen: gen,
	Run: run,
}

func TestProperty(t *testing.T) { kit.Check(t, prop) }
