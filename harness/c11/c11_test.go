package c11

import (
	"bytes"
	"context"
	"crypto/sha1"
	"fmt"
	"sync"
	"testing"
	"time"

	"github.com/hslam/rpc"
	"pgregory.net/rapid"
	"verif/harness/kit"
)

// Item is one unit of traffic.
type Item struct {
	Kind   string `json:"kind"` // call | ctx | go | stream
	Size   int    `json:"size"`
	Salt   uint32 `json:"salt"`
	Method int    `json:"method,omitempty"`
	Buf    string `json:"buf,omitempty"` // ctx / stream read buffer: none | zero | lenm1 | len | lenp1 | len2
}

// Case is traffic of several workers over one connection with everything retained.
type Case struct {
	M       kit.Modes `json:"modes"`
	FreeCtx bool      `json:"free_ctx"`
	Workers [][]Item  `json:"workers"`
}

func genSize(t *rapid.T) int {
	k := rapid.IntRange(0, 9).Draw(t, "size_class")
	switch {
	case k == 0:
		return rapid.IntRange(0, 15).Draw(t, "size")
	case k <= 7:
		e := rapid.IntRange(4, 16).Draw(t, "exp")
		return 1<<uint(e) + rapid.IntRange(-1, 1).Draw(t, "delta")
	default:
		return rapid.IntRange(65537, 100000).Draw(t, "size")
	}
}

func gen(t *rapid.T) Case {
	c := Case{}
	c.M = kit.Modes{
		Enc:           rapid.SampledFrom(kit.Encoders).Draw(t, "enc"),
		SrvPipelining: rapid.IntRange(0, 2).Draw(t, "srv_pipe") == 0,
		SrvDirect:     rapid.Bool().Draw(t, "srv_direct"),
		CliPipelining: rapid.IntRange(0, 3).Draw(t, "cli_pipe") == 0,
		CliDirect:     rapid.Bool().Draw(t, "cli_direct"),
		Link:          rapid.SampledFrom([]string{"frame", "bytes"}).Draw(t, "link"),
		CtxBuf:        rapid.Bool().Draw(t, "ctx_buf"),
		SrvBuf:        rapid.SampledFrom([]int{0, 0, 64, 100, 3000, 4096, 5000, 70000, 1 << 20}).Draw(t, "srv_buf"),
	}
	if c.M.Link == "bytes" {
		c.M.Chunk = rapid.SampledFrom([]int{0, 0, 7, 4096}).Draw(t, "chunk")
		c.M.CliBuf = rapid.SampledFrom([]int{0, 64, 100, 3000, 4096, 5000, 1 << 20}).Draw(t, "cli_buf")
	}
	c.FreeCtx = c.M.CtxBuf && rapid.Bool().Draw(t, "free_ctx")
	nw := rapid.IntRange(1, 4).Draw(t, "workers")
	total := rapid.IntRange(20, 300).Draw(t, "total")
	if rapid.Bool().Draw(t, "small") {
		total = rapid.IntRange(20, 60).Draw(t, "total2")
	}
	// a few size classes dominate so that pool classes are reused
	hot := []int{genSize(t), genSize(t)}
	if c.M.SrvBuf > 0 && c.M.SrvBuf < 100000 && rapid.Bool().Draw(t, "hot_near_buf") {
		// payloads just above the configured buffer size but within its pool size class
		hot[0] = c.M.SrvBuf + rapid.IntRange(-40, 600).Draw(t, "near_buf")
		if hot[0] < 0 {
			hot[0] = 16
		}
	}
	for w := 0; w < nw; w++ {
		var items []Item
		for i := 0; i < total/nw+1; i++ {
			it := Item{
				Kind:   rapid.SampledFrom([]string{"call", "ctx", "ctx", "go", "stream", "stream"}).Draw(t, "kind"),
				Salt:   rapid.Uint32().Draw(t, "salt"),
				Method: rapid.IntRange(0, 3).Draw(t, "method"),
			}
			if rapid.IntRange(0, 2).Draw(t, "hot") > 0 {
				it.Size = hot[rapid.IntRange(0, 1).Draw(t, "hot_i")]
			} else {
				it.Size = genSize(t)
			}
			if it.Kind == "ctx" || it.Kind == "stream" {
				it.Buf = rapid.SampledFrom([]string{"none", "zero", "lenm1", "len", "lenp1", "len2"}).Draw(t, "buf")
			}
			items = append(items, it)
		}
		c.Workers = append(c.Workers, items)
	}
	return c
}

const (
	bound = 30 * time.Second
	guard = 0x5C
)

type kept struct {
	what   string
	data   []byte
	digest [20]byte
	size   int
	order  int
}

func poolClass(n int) int {
	c := 0
	for s := 8; s < n && c < 40; s <<= 1 {
		c++
	}
	return c
}

func bufFor(kind string, n int) []byte {
	var c int
	switch kind {
	case "zero":
		c = 0
	case "lenm1":
		c = n - 1
	case "len":
		c = n
	case "lenp1":
		c = n + 1
	case "len2":
		c = 2 * n
	default:
		return nil
	}
	if c < 0 {
		c = 0
	}
	b := make([]byte, c)
	for i := range b {
		b[i] = guard
	}
	return b
}

func run(c Case) kit.Outcome {
	if !c.M.Valid() || len(c.Workers) == 0 || len(c.Workers) > 8 {
		return kit.Outcome{Invalid: true}
	}
	total := 0
	for _, w := range c.Workers {
		for _, it := range w {
			if it.Size < 0 || it.Size > 1<<20 || it.Method < 0 || it.Method > 3 {
				return kit.Outcome{Invalid: true}
			}
			switch it.Kind {
			case "call", "ctx", "go", "stream":
			default:
				return kit.Outcome{Invalid: true}
			}
			total++
		}
	}
	if total > 3000 {
		return kit.Outcome{Invalid: true}
	}
	s, err := kit.NewSession(c.M)
	if err != nil {
		return kit.Undecided("%v", err)
	}
	defer s.Close()
	s.Env.SetRetain(true)
	s.Env.FreeCtx = c.FreeCtx
	s.Env.StreamFn = func(env *kit.Env, st *kit.HStream) error {
		for {
			var m []byte
			if err := st.Read(nil, &m); err != nil {
				return err
			}
			env.Retain("stream-msg-at-server", 0, m)
			r := kit.Transform(m)
			if err := st.Write(&r); err != nil {
				return err
			}
		}
	}
	conn, err := s.Dial()
	if err != nil {
		return kit.Undecided("dial: %v", err)
	}
	var mu sync.Mutex
	var keep []kept
	order := 0
	retain := func(what string, data []byte, size int) {
		mu.Lock()
		order++
		keep = append(keep, kept{what: what, data: data, digest: sha1.Sum(data), size: size, order: order})
		mu.Unlock()
	}
	verify := func() *kit.Outcome {
		mu.Lock()
		ks := append([]kept(nil), keep...)
		mu.Unlock()
		for _, k := range ks {
			if sha1.Sum(k.data) != k.digest {
				o := kit.Fail("retained-data-mutated", "%s (%d bytes, retained as item %d of %d) changed after it was handed to user code", k.what, len(k.data), k.order, len(ks))
				o.Sig = k.what
				return &o
			}
		}
		for _, r := range s.Env.RetainedSnapshot() {
			if sha1.Sum(r.Data) != r.Digest {
				o := kit.Fail("retained-data-mutated", "%s of call %d (%d bytes) changed after the handler received it", r.What, r.ID, len(r.Data))
				o.Sig = r.What
				return &o
			}
		}
		return nil
	}
	var firstFail *kit.Outcome
	var undecided string
	setFail := func(o kit.Outcome) {
		mu.Lock()
		if firstFail == nil {
			firstFail = &o
		}
		mu.Unlock()
	}
	var wg sync.WaitGroup
	nextID := uint64(0)
	for wi, items := range c.Workers {
		base := nextID
		nextID += uint64(len(items))
		wg.Add(1)
		go func(wi int, items []Item, base uint64) {
			defer wg.Done()
			var st rpc.Stream
			defer func() {
				if st != nil {
					st.Close()
				}
			}()
			for i, it := range items {
				mu.Lock()
				stop := firstFail != nil || undecided != ""
				mu.Unlock()
				if stop {
					return
				}
				id := base + uint64(i) + 1
				args := kit.MakePayload(id, kit.DirEcho, it.Salt, it.Size)
				want := kit.Transform(args)
				resc := make(chan error, 1)
				var reply []byte
				var buf []byte
				switch it.Kind {
				case "call":
					go func() { resc <- conn.Call(kit.Methods[it.Method], &args, &reply) }()
				case "go":
					go func() {
						call := conn.Go(kit.Methods[it.Method], &args, &reply, make(chan *rpc.Call, 1))
						<-call.Done
						resc <- call.Error
					}()
				case "ctx":
					ctx := context.Background()
					buf = bufFor(it.Buf, len(want))
					if buf != nil {
						ctx = context.WithValue(ctx, rpc.BufferContextKey, buf[:0])
					}
					go func() { resc <- conn.CallWithContext(ctx, kit.Methods[it.Method], &args, &reply) }()
				case "stream":
					buf = bufFor(it.Buf, len(want))
					go func() {
						if st == nil {
							var err error
							st, err = conn.NewStream("S.Stream")
							if err != nil {
								resc <- err
								return
							}
						}
						if err := st.WriteMessage(&args); err != nil {
							resc <- err
							return
						}
						var rb []byte
						if buf != nil {
							rb = buf[:0]
						}
						resc <- st.ReadMessage(rb, &reply)
					}()
				}
				select {
				case err := <-resc:
					if err != nil {
						mu.Lock()
						undecided = fmt.Sprintf("worker %d item %d (%s, %d bytes) failed in a fault-free run: %v", wi, i, it.Kind, it.Size, err)
						mu.Unlock()
						return
					}
				case <-time.After(bound):
					mu.Lock()
					undecided = fmt.Sprintf("worker %d item %d (%s, %d bytes) did not complete within %v", wi, i, it.Kind, it.Size, bound)
					mu.Unlock()
					return
				}
				if !bytes.Equal(reply, want) {
					setFail(kit.Fail("wrong-data", "worker %d item %d (%s, %d bytes): data handed to the caller is not the expected reply: got %s want %s", wi, i, it.Kind, it.Size, kit.Brief(reply), kit.Brief(want)))
					return
				}
				retain(it.Kind+"-reply", reply, it.Size)
				// caller-supplied buffer: never written beyond the reported length
				if it.Kind == "ctx" && buf != nil && len(want) > 0 {
					if cap(buf) >= len(want) {
						for j := len(want); j < cap(buf); j++ {
							if buf[:cap(buf)][j] != guard {
								setFail(kit.Fail("buffer-overrun", "worker %d item %d: byte %d of the caller-supplied context buffer (capacity %d) beyond the %d-byte reply was overwritten", wi, i, j, cap(buf), len(want)))
								return
							}
						}
					} else {
						for j := 0; j < cap(buf); j++ {
							if buf[:cap(buf)][j] != guard {
								setFail(kit.Fail("small-buffer-touched", "worker %d item %d: caller-supplied context buffer of capacity %d is too small for the %d-byte reply but byte %d was overwritten", wi, i, cap(buf), len(want), j))
								return
							}
						}
					}
				}
				if it.Kind == "stream" && buf != nil {
					// stream.ReadMessage uses the buffer only when its capacity exceeds the message
					lim := 0
					if cap(buf) > len(want) {
						lim = len(want)
					}
					for j := lim; j < cap(buf); j++ {
						if buf[:cap(buf)][j] != guard {
							setFail(kit.Fail("buffer-overrun", "worker %d item %d: byte %d of the buffer supplied to Stream.ReadMessage (capacity %d, message %d bytes) was overwritten", wi, i, j, cap(buf), len(want)))
							return
						}
					}
				}
				if (i+1)%20 == 0 {
					if o := verify(); o != nil {
						setFail(*o)
						return
					}
				}
			}
		}(wi, items, base)
	}
	wg.Wait()
	if firstFail != nil {
		return *firstFail
	}
	if undecided != "" {
		return kit.Undecided("%s", undecided)
	}
	if o := verify(); o != nil {
		return *o
	}
	// non-triviality: some retained slice is followed by >= 20 later items of its pool class
	perClass := map[int]int{}
	for _, w := range c.Workers {
		for _, it := range w {
			perClass[poolClass(it.Size)]++
		}
	}
	out := kit.Outcome{Counters: map[string]int{"items": total, "retained_client": len(keep), "retained_server": len(s.Env.RetainedSnapshot())}}
	for _, n := range perClass {
		if n >= 21 {
			out.Nontrivial = true
		}
	}
	out.Classes = append(out.Classes, "enc="+c.M.Enc, "link="+c.M.Link)
	if c.M.CtxBuf {
		out.Classes = append(out.Classes, "server-context-buffer")
	}
	if c.FreeCtx {
		out.Classes = append(out.Classes, "handlers-free-context-buffer")
	}
	if c.M.SrvBuf > 0 && c.M.SrvBuf < 4097 {
		out.Classes = append(out.Classes, "server-buffer<messages")
	}
	return out
}

var prop = kit.Property[Case]{
	ID:    "C11",
	Level: "exploration",
	Rule:  "rapid-generated traffic of 20-300 items from 1-4 concurrent workers over one real Conn to a real Server (zero-copy bytes body codec whose decoded values alias their input; 4 header encoders x modes x server context buffer with/without handlers freeing it x server/client buffer sizes 64..1 MiB x frame/byte link): Call, Go, CallWithContext with caller-supplied guard-filled buffers of capacity none/0/len-1/len/len+1/2*len, and echo-stream messages, sizes 0..15 and 2^k+-1 for k=4..16 and 64-100 KB with two hot sizes per case so that pool classes are reused. Handlers retain their argument slices, stream handlers their messages, callers every reply and stream message, each with its SHA-1 at hand-over; all are re-hashed every 20 items and at the end. Non-trivial: some pool size class carries >= 21 items (so a retained slice is followed by >= 20 later messages of its class); distinct by SHA-1 of the case.",
	Assumptions: []string{
		"NoCopy is off (the statement exempts it)",
		"pool reuse happens naturally through the library's process-global pools; no poisoning hook is used",
	},
	Gen: gen,
	Run: run,
}

func TestProperty(t *testing.T) { kit.Check(t, prop) }
