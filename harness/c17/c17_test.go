package c17

import (
	"fmt"
	"math"
	"testing"
	"time"

	"github.com/hslam/rpc"
	"pgregory.net/rapid"
	"verif/harness/kit"
)

// Step changes the scripted latency of one target at a call index of the measured phase.
type Step struct {
	At     int  `json:"at"`
	Target int  `json:"target"`
	LatUS  int  `json:"lat_us"`
	Down   bool `json:"down,omitempty"`
}

// Case is a stable target set, a latency script and a sequential caller.
type Case struct {
	Policy   int      `json:"policy"`             // 0 round robin, 1 random, 2 least time
	N        int      `json:"n"`                  // targets
	Dup      bool     `json:"dup"`                // the target list contains duplicates and an empty string
	Dead     int      `json:"dead,omitempty"`     // extra listed targets that are never reachable (the detector keeps re-checking them)
	PauseUS  int      `json:"pause_us,omitempty"` // pause between calls (lets the measured phase span several detector periods)
	BaseUS   []int    `json:"base_us"`
	Steps    []Step   `json:"steps"`
	Calls    int      `json:"calls"`
	Alpha    float64  `json:"alpha"`
	TickKind string   `json:"tick_kind"` // every (1ns) | never (1h) | some (30ms)
	Forms    []string `json:"forms"`
}

var bases = []int{200, 1000, 3000, 8000, 20000}

func gen(t *rapid.T) Case {
	c := Case{
		Policy: rapid.SampledFrom([]int{0, 1, 2, 2, 2}).Draw(t, "policy"),
		N:      rapid.IntRange(2, 6).Draw(t, "n"),
		Dup:    rapid.Bool().Draw(t, "dup"),
		Alpha:  rapid.SampledFrom([]float64{0, 0.2, 0.8, 0.8, 1}).Draw(t, "alpha"),
	}
	for i := 0; i < c.N; i++ {
		c.BaseUS = append(c.BaseUS, rapid.SampledFrom(bases).Draw(t, "base"))
	}
	c.Calls = rapid.IntRange(3*c.N, 12*c.N).Draw(t, "calls")
	if rapid.IntRange(0, 2).Draw(t, "with_dead") == 0 {
		c.Dead = rapid.IntRange(1, 2).Draw(t, "dead")
		if c.Policy != 2 {
			// rotation must also hold across the detector's periodic re-checks of the dead targets
			c.Calls = rapid.IntRange(20*c.N, 60*c.N).Draw(t, "calls_long")
			c.PauseUS = rapid.SampledFrom([]int{500, 1000, 2000}).Draw(t, "pause_us")
		}
	}
	if c.Policy == 2 {
		c.TickKind = rapid.SampledFrom([]string{"never", "never", "every", "some"}).Draw(t, "tick_kind")
		ns := rapid.IntRange(0, 3).Draw(t, "nsteps")
		for i := 0; i < ns; i++ {
			c.Steps = append(c.Steps, Step{
				At:     rapid.IntRange(1, c.Calls-1).Draw(t, "at"),
				Target: rapid.IntRange(0, c.N-1).Draw(t, "target"),
				LatUS:  rapid.SampledFrom(bases).Draw(t, "lat"),
				Down:   rapid.IntRange(0, 5).Draw(t, "down") == 0,
			})
		}
		c.Forms = []string{"call"}
		if rapid.Bool().Draw(t, "mixed_forms") {
			c.Forms = []string{"call", "ctx", "call"}
		}
	} else {
		c.TickKind = "never"
		c.Forms = []string{"call", "go", "ctx", "roundtrip"}
	}
	return c
}

const maxLat = float64(time.Minute)

type est struct{ lo, hi float64 }

func run(c Case) kit.Outcome {
	if c.Dead < 0 || c.Dead > 4 || c.PauseUS < 0 || c.PauseUS > 100000 {
		return kit.Outcome{Invalid: true}
	}
	if c.Policy < 0 || c.Policy > 2 || c.N < 2 || c.N > 8 || len(c.BaseUS) != c.N || c.Calls < 1 || c.Calls > 2000 || c.Alpha < 0 || c.Alpha > 1 || len(c.Forms) == 0 {
		return kit.Outcome{Invalid: true}
	}
	for _, b := range c.BaseUS {
		if b < 0 || b > 200000 {
			return kit.Outcome{Invalid: true}
		}
	}
	for _, s := range c.Steps {
		if s.At < 0 || s.Target < 0 || s.Target >= c.N || s.LatUS < 0 || s.LatUS > 200000 {
			return kit.Outcome{Invalid: true}
		}
	}
	for _, f := range c.Forms {
		switch f {
		case "call", "ctx", "go", "roundtrip":
		default:
			return kit.Outcome{Invalid: true}
		}
	}
	var tick time.Duration
	switch c.TickKind {
	case "every":
		tick = time.Nanosecond
	case "never":
		tick = time.Hour
	case "some":
		tick = 30 * time.Millisecond
	default:
		return kit.Outcome{Invalid: true}
	}
	names := make([]string, c.N)
	index := map[string]int{}
	frt := kit.NewFakeRT()
	for i := range names {
		names[i] = fmt.Sprintf("n%d", i)
		index[names[i]] = i
		frt.SetLatency(names[i], time.Duration(c.BaseUS[i])*time.Microsecond)
	}
	client := rpc.NewClient(nil)
	client.Transport = frt
	client.Scheduling = rpc.Scheduling(c.Policy)
	client.Alpha = c.Alpha
	client.Tick = time.Nanosecond
	client.DialTimeout = 5 * time.Second
	defer client.Close()
	list := append([]string(nil), names...)
	if c.Dup {
		list = append(list, names[0], "", names[c.N-1])
	}
	for k := 0; k < c.Dead; k++ {
		dn := fmt.Sprintf("dead%d", k)
		frt.SetDown(dn, true)
		list = append(list, dn)
	}
	client.Update(list...)
	// model of the latency estimates (LeastTime): interval per target
	ests := make([]est, c.N)
	for i := range ests {
		ests[i] = est{maxLat, maxLat}
	}
	slackFor := func(d float64) float64 {
		s := 2e6 // 2 ms
		if d*0.5 > s {
			s = d * 0.5
		}
		return s
	}
	updateEst := func(i int, r kit.RTRecord, form string) {
		if form != "call" && form != "ctx" {
			return // Go and RoundTrip do not feed the estimate
		}
		if r.Err == rpc.ErrDial {
			ests[i] = est{maxLat, maxLat}
			return
		}
		d := float64(r.Out.Sub(r.In))
		lo, hi := d, d+slackFor(d)
		e := ests[i]
		var n est
		if e.lo >= maxLat {
			n.lo = lo
		} else {
			n.lo = e.lo*c.Alpha + lo*(1-c.Alpha)
		}
		if e.hi >= maxLat {
			n.hi = hi
		} else {
			n.hi = e.hi*c.Alpha + hi*(1-c.Alpha)
		}
		// the estimate is stored as an integer number of nanoseconds
		n.lo = math.Floor(n.lo) - 1
		n.hi = math.Ceil(n.hi) + 1
		ests[i] = n
	}
	id := 0
	one := func(form string) (kit.RTRecord, bool) {
		id++
		before := frt.Len()
		tag := &kit.CallTag{ID: id, Start: time.Now()}
		rc := make(chan error, 1)
		go func() { rc <- kit.ClientDo(client, form, tag) }()
		select {
		case <-rc:
		case <-time.After(20 * time.Second):
			return kit.RTRecord{}, false
		}
		recs := frt.Records()
		for i := len(recs) - 1; i >= before; i-- {
			if recs[i].ID == id {
				return recs[i], true
			}
		}
		return kit.RTRecord{ID: -1}, true
	}
	// warm-up: every call probes in rotation until each target was called twice with a timed form
	seen := make([]int, c.N)
	for k := 0; k < 40*c.N; k++ {
		r, ok := one("call")
		if !ok {
			return kit.Undecided("warm-up call did not return")
		}
		if r.ID < 0 || r.Addr == "" {
			continue
		}
		i := index[r.Addr]
		seen[i]++
		updateEst(i, r, "call")
		all := true
		for _, s := range seen {
			if s < 2 {
				all = false
			}
		}
		if all {
			break
		}
	}
	for i, s := range seen {
		if s < 2 {
			return kit.Undecided("warm-up could not reach target %d twice", i)
		}
	}
	client.Tick = tick
	// the first measured call after a Tick change may or may not be a probe: one free call
	if r, ok := one("call"); ok && r.ID >= 0 && r.Addr != "" {
		updateEst(index[r.Addr], r, "call")
	}
	steps := map[int][]Step{}
	for _, s := range c.Steps {
		steps[s.At] = append(steps[s.At], s)
	}
	var routed []int
	var hist []string
	var probeTimes []time.Time
	downAt := map[int]int{}
	failedTimed := map[int]bool{}
	for k := 0; k < c.Calls; k++ {
		for _, s := range steps[k] {
			frt.SetLatency(names[s.Target], time.Duration(s.LatUS)*time.Microsecond)
			if c.Policy == 2 {
				frt.SetDown(names[s.Target], s.Down)
				if s.Down {
					downAt[s.Target] = k
				} else {
					delete(downAt, s.Target)
					delete(failedTimed, s.Target)
				}
			}
			hist = append(hist, fmt.Sprintf("call %d: target %d latency -> %dus down=%v", k, s.Target, s.LatUS, s.Down))
		}
		form := c.Forms[k%len(c.Forms)]
		if c.PauseUS > 0 {
			time.Sleep(time.Duration(c.PauseUS) * time.Microsecond)
		}
		r, ok := one(form)
		if !ok {
			return kit.Undecided("call %d did not return", k)
		}
		if r.ID < 0 || r.Addr == "" {
			hist = append(hist, fmt.Sprintf("call %d: not routed to a target", k))
			continue
		}
		i, known := index[r.Addr]
		if !known {
			return kit.Fail("routed-to-dead-target", "call %d was routed to %s, a listed target that has never been reachable", k, r.Addr)
		}
		routed = append(routed, i)
		if c.Policy == 2 {
			line := fmt.Sprintf("call %d (%s) -> target %d took %v; estimates", k, form, i, r.Out.Sub(r.In))
			for j, e := range ests {
				if e.lo >= maxLat {
					line += fmt.Sprintf(" %d:max", j)
				} else {
					line += fmt.Sprintf(" %d:[%.2f,%.2f]ms", j, e.lo/1e6, e.hi/1e6)
				}
			}
			hist = append(hist, line)
			if len(hist) > 80 {
				hist = hist[len(hist)-80:]
			}
			// is the chosen target unambiguously not minimal?
			notMin := false
			for j, e := range ests {
				if j != i && ests[i].lo > e.hi {
					notMin = true
				}
			}
			switch c.TickKind {
			case "never":
				if notMin && len(downAt) == 0 {
					o := kit.Fail("least-time-not-minimal", "LeastTime (Tick 1h, so no probes) sent call %d to target %d whose latency estimate [%.3f,%.3f] ms is above another target's; Alpha=%v", k, i, ests[i].lo/1e6, ests[i].hi/1e6, c.Alpha)
					o.History, o.Timing = hist, true
					return o
				}
			case "some":
				if notMin {
					probeTimes = append(probeTimes, r.In)
				}
			}
			if r.Err == rpc.ErrDial && (form == "call" || form == "ctx") {
				failedTimed[i] = true
			} else if c.TickKind == "never" && failedTimed[i] && downAt[i] < k && r.Err == rpc.ErrDial {
				// after a timed call to a down target failed, its estimate is the maximum: it must not be
				// chosen as the minimum while another target is reachable (the detector may re-add it
				// only after it answers a probe again)
			}
			updateEst(i, r, form)
		}
	}
	out := kit.Outcome{Counters: map[string]int{"routed": len(routed)}, Classes: []string{fmt.Sprintf("policy=%d", c.Policy), "tick=" + c.TickKind}}
	// LeastTime with Tick 30 ms: probes go round the live targets. A call issued more than a Tick
	// after the previous probe is a probe for certain; the calls right behind it are not. With a
	// stable set of n targets any n consecutive such designated probes reach n distinct targets.
	stable := true
	for _, st := range c.Steps {
		if st.Down {
			stable = false
		}
	}
	if c.Policy == 2 && c.TickKind == "some" && stable && len(downAt) == 0 {
		var designated []int
		judged := true
		for r := 0; r < 2*c.N+1 && judged; r++ {
			time.Sleep(tick + 8*time.Millisecond)
			start := time.Now()
			pr, ok := one("call")
			if !ok {
				return kit.Undecided("probe call did not return")
			}
			if pr.ID < 0 || pr.Addr == "" {
				judged = false
				break
			}
			designated = append(designated, index[pr.Addr])
			updateEst(index[pr.Addr], pr, "call")
			for q := 0; q < 1+r%2; q++ {
				if time.Since(start) > tick*6/10 {
					// too late to be sure the next call would not be a probe itself: skipped
					break
				}
				qr, ok := one("call")
				if !ok {
					return kit.Undecided("call did not return")
				}
				if qr.ID >= 0 && qr.Addr != "" {
					updateEst(index[qr.Addr], qr, "call")
				}
			}
		}
		if judged {
			out.Classes = append(out.Classes, "probe-rotation-judged")
			for s0 := 0; s0+c.N <= len(designated); s0++ {
				seenW := map[int]bool{}
				for _, i := range designated[s0 : s0+c.N] {
					seenW[i] = true
				}
				if len(seenW) != c.N {
					o := kit.Fail("probe-rotation", "LeastTime with Tick 30 ms: %d consecutive probes (calls issued more than a Tick after the previous probe, with ordinary calls in between) went to targets %v, which are not %d distinct targets: probes do not rotate over the live targets", c.N, designated[s0:s0+c.N], c.N)
					o.History, o.Timing = append(hist, fmt.Sprintf("designated probes: %v", designated)), true
					return o
				}
			}
		} else {
			out.Counters["probe_rotation_unjudged"] = 1
		}
	}
	switch {
	case c.Policy == 0 || (c.Policy == 2 && c.TickKind == "every" && len(c.Steps) == 0):
		// rotation: any n consecutive calls hit n distinct targets
		for s := 0; s+c.N <= len(routed); s++ {
			seenW := map[int]bool{}
			for _, i := range routed[s : s+c.N] {
				seenW[i] = true
			}
			if len(seenW) != c.N {
				what := "RoundRobin"
				if c.Policy == 2 {
					what = "LeastTime with every call a probe (Tick 1ns)"
				}
				return kit.Fail("rotation-window", "%s: calls %d..%d went to targets %v, which are not %d distinct targets (target list had duplicates/empty strings: %v)", what, s, s+c.N-1, routed[s:s+c.N], c.N, c.Dup)
			}
		}
	case c.Policy == 1:
		// Random only picks live targets: every routed address is one of the targets (checked by index lookup)
	case c.Policy == 2 && c.TickKind == "some":
		// probes are at most one per Tick: k probes span >= (k-1)*Tick - 50%
		for a := 0; a < len(probeTimes); a++ {
			for b := a + 2; b < len(probeTimes) && b <= a+6; b++ {
				span := probeTimes[b].Sub(probeTimes[a])
				need := time.Duration(b-a) * tick / 2
				if span < need {
					o := kit.Fail("probe-rate", "LeastTime with Tick 30 ms sent %d calls to targets that are unambiguously not minimal within %v (more than one probe per Tick)", b-a+1, span)
					o.History, o.Timing = hist, true
					return o
				}
			}
		}
	}
	distinctBases := map[int]bool{}
	for _, b := range c.BaseUS {
		distinctBases[b] = true
	}
	if c.Policy == 2 {
		if len(distinctBases) >= 2 && len(c.Steps) >= 1 && c.N >= 3 {
			out.Nontrivial = true
		}
	} else if c.N >= 3 && len(routed) >= 2*c.N {
		out.Nontrivial = true
	}
	if c.Dup {
		out.Classes = append(out.Classes, "duplicates-in-target-list")
	}
	if c.Dead > 0 {
		out.Classes = append(out.Classes, "with-unreachable-targets")
	}
	return out
}

var prop = kit.Property[Case]{
	ID:    "C17",
	Level: "exploration",
	Rule:  "rapid-generated cases against a real Client over a scripted fake RoundTripper with 2-6 stable live targets (optionally listed with duplicates and an empty string), a sequential caller (routing order == arrival order), scripted per-target latency (0.2-20 ms) with up to 3 step changes / outages during 3n-12n measured calls, Alpha in {0,0.2,0.8,1}, Tick in {1 ns, 30 ms, 1 h}; warm-up with Tick 1 ns until every target was called twice. Oracle: RoundRobin (and LeastTime with Tick 1 ns, where every call is a probe) sends any n consecutive calls to n distinct targets; Random only routes to listed targets; LeastTime is judged against an interval-arithmetic model of the documented estimate (first sample replaces the maximum, then old*Alpha+new*(1-Alpha), unreachable -> maximum) fed with the durations measured inside the fake transport (+2 ms or 50% slack): with Tick 1 h no call goes to a target whose estimate interval lies strictly above another's; with Tick 30 ms such calls (probes) are at most one per Tick, and n consecutive designated probes (calls issued more than a Tick after the previous probe, with ordinary calls in between) reach n distinct targets when the live set is stable. Non-trivial: LeastTime with >= 2 distinct base latencies, >= 1 step change and n >= 3, or n >= 3 with >= 2n routed calls for the other policies; distinct by SHA-1 of the case.",
	Assumptions: []string{
		"the latency estimate itself is not read (no hook); it is decided through its only observable effect, the choice, where the model makes the choice unambiguous",
		"the client-side measured duration lies within [fake-transport duration, that + max(2 ms, 50%)]; a miss must reproduce in isolation",
	},
	Gen: gen,
	Run: run,
}

func TestProperty(t *testing.T) { kit.Check(t, prop) }
