package c15

import (
	"bytes"
	"fmt"
	"strings"
	"testing"
	"time"

	"github.com/hslam/rpc"
	"pgregory.net/rapid"
	"verif/harness/kit"
)

// Op is one step of a history.
type Op struct {
	K     string `json:"k"` // longstart | longfinish | streamopen | streamecho | streamclose | call | sleep | closeidle | storm | handout
	A     int    `json:"a,omitempty"`
	Ticks int    `json:"ticks,omitempty"`
	Form  string `json:"form,omitempty"`
}

// Case is a Transport configuration plus a history with busy connections.
type Case struct {
	Cfg kit.TCfg `json:"cfg"`
	Ops []Op     `json:"ops"`
}

func gen(t *rapid.T) Case {
	c := Case{Cfg: kit.TCfg{
		Addrs:     rapid.IntRange(1, 3).Draw(t, "addrs"),
		Max:       rapid.SampledFrom([]int{0, 1, 2, 3, 4}).Draw(t, "max"),
		MaxIdle:   rapid.SampledFrom([]int{0, 1, 2, 3, 4}).Draw(t, "max_idle"),
		KeepAlive: rapid.SampledFrom([]int{1, 1, 2, 5, 10}).Draw(t, "keep_alive"),
		IdleTO:    rapid.SampledFrom([]int{1, 1, 2, 5, 20, 40}).Draw(t, "idle_to"),
		TickUS:    2000,
		Enc:       rapid.SampledFrom(kit.Encoders).Draw(t, "enc"),
	}}
	n := rapid.IntRange(4, 25).Draw(t, "nops")
	// every case starts with something busy
	a0 := rapid.IntRange(0, c.Cfg.Addrs-1).Draw(t, "a0")
	if rapid.Bool().Draw(t, "start_long") {
		c.Ops = append(c.Ops, Op{K: "longstart", A: a0})
	} else {
		c.Ops = append(c.Ops, Op{K: "streamopen", A: a0})
	}
	for i := 0; i < n; i++ {
		a := rapid.IntRange(0, c.Cfg.Addrs-1).Draw(t, "a")
		k := rapid.IntRange(0, 19).Draw(t, "k")
		switch {
		case k <= 1:
			c.Ops = append(c.Ops, Op{K: "longstart", A: a})
		case k <= 3:
			c.Ops = append(c.Ops, Op{K: "longfinish"})
		case k <= 5:
			c.Ops = append(c.Ops, Op{K: "streamopen", A: a})
		case k <= 7:
			c.Ops = append(c.Ops, Op{K: "streamecho"})
		case k == 8:
			c.Ops = append(c.Ops, Op{K: "streamclose"})
		case k <= 11:
			c.Ops = append(c.Ops, Op{K: "call", A: a, Form: rapid.SampledFrom([]string{"call", "go", "ctx", "ping"}).Draw(t, "form")})
		case k <= 16:
			tk := rapid.SampledFrom([]int{1, 2, 3, 5, 12, 30, -1}).Draw(t, "ticks")
			if tk < 0 {
				tk = c.Cfg.KeepAlive + c.Cfg.IdleTO + 7 // long enough for unused connections to be closed
			}
			c.Ops = append(c.Ops, Op{K: "sleep", Ticks: tk})
		default:
			c.Ops = append(c.Ops, Op{K: "closeidle"})
		}
	}
	if rapid.IntRange(0, 1).Draw(t, "handout") == 0 {
		// the harness plays the caller between "connection handed out" and "request issued" and lets
		// housekeeping ticks pass in between (hook VerifGetConn)
		at := rapid.IntRange(1, len(c.Ops)).Draw(t, "handout_at")
		op := Op{K: "handout", A: rapid.IntRange(0, c.Cfg.Addrs-1).Draw(t, "handout_a"), Ticks: rapid.SampledFrom([]int{0, 1, c.Cfg.KeepAlive + 2, c.Cfg.KeepAlive + 2, c.Cfg.KeepAlive + 3}).Draw(t, "handout_pause")}
		c.Ops = append(c.Ops[:at], append([]Op{op}, c.Ops[at:]...)...)
	}
	if c.Cfg.IdleTO <= 5 && rapid.IntRange(0, 2).Draw(t, "storm") == 0 {
		// long calls started at many phases of the housekeeping tick on a connection that is just due
		// for retirement
		at := rapid.IntRange(0, len(c.Ops)).Draw(t, "storm_at")
		op := Op{K: "storm", A: rapid.IntRange(0, c.Cfg.Addrs-1).Draw(t, "storm_a"), Ticks: rapid.IntRange(10, 60).Draw(t, "storm_n")}
		c.Ops = append(c.Ops[:at], append([]Op{op}, c.Ops[at:]...)...)
	}
	return c
}

const (
	bound  = 10 * time.Second
	prompt = 2 * time.Second
)

type longCall struct {
	a    int
	id   uint64
	done chan kit.CallResult
}

type openStream struct {
	a  int
	st rpc.Stream
	n  int
}

func run(c Case) kit.Outcome {
	if !c.Cfg.Valid() || len(c.Ops) == 0 || len(c.Ops) > 200 {
		return kit.Outcome{Invalid: true}
	}
	for _, op := range c.Ops {
		if op.A < 0 || op.A >= c.Cfg.Addrs || op.Ticks < 0 || op.Ticks > 500 {
			return kit.Outcome{Invalid: true}
		}
	}
	before := kit.LibraryGoroutines()
	w, err := kit.NewTWorld(c.Cfg)
	if err != nil {
		return kit.Undecided("%v", err)
	}
	closed := false
	defer func() {
		if !closed {
			w.Close()
		}
	}()
	tick := c.Cfg.Tick()
	var hist []string
	h := func(f string, a ...interface{}) { hist = append(hist, fmt.Sprintf(f, a...)) }
	fail := func(o kit.Outcome) kit.Outcome { o.History = hist; return o }
	var longs []longCall
	var streams []*openStream
	busyTicks, closeIdles, reclaimChecks, storms, handouts, handoutUnsent := 0, 0, 0, 0, 0, 0

	echo := func(s *openStream) *kit.Outcome {
		s.n++
		m := kit.MakePayload(uint64(s.n), kit.DirEcho, uint32(s.n), 40)
		rc := make(chan error, 1)
		var got []byte
		go func() {
			if err := s.st.WriteMessage(&m); err != nil {
				rc <- err
				return
			}
			rc <- s.st.ReadMessage(nil, &got)
		}()
		select {
		case err := <-rc:
			if err != nil || !bytes.Equal(got, kit.Transform(m)) {
				o := kit.Fail("busy-connection-closed", "an open stream to %s stopped working (%v) although it was never closed by the user: housekeeping or CloseIdleConnections closed its connection", w.Addrs[s.a], err)
				return &o
			}
		case <-time.After(bound):
			o := kit.Fail("busy-connection-closed", "an open stream to %s no longer echoes within %v", w.Addrs[s.a], bound)
			o.Timing = true
			return &o
		}
		return nil
	}
	finishLong := func(lc longCall) *kit.Outcome {
		w.Env(lc.a).Open(lc.id)
		select {
		case r := <-lc.done:
			if r.Err != nil || !r.ReplyOK {
				o := kit.Fail("busy-connection-closed", "a call to %s that was sent and still executing failed with %v (reply ok: %v): its connection was closed under it by housekeeping or CloseIdleConnections", w.Addrs[lc.a], r.Err, r.ReplyOK)
				return &o
			}
		case <-time.After(bound):
			o := kit.Fail("busy-connection-closed", "a long-running call to %s did not return within %v after its handler finished", w.Addrs[lc.a], bound)
			o.Timing = true
			return &o
		}
		return nil
	}
	for _, op := range c.Ops {
		switch op.K {
		case "longstart":
			if len(longs) >= 3 {
				continue
			}
			lc := longCall{a: op.A}
			lc.id, lc.done = w.DoAsync(op.A, "call", kit.DirGate, 120*time.Second)
			if !w.Env(op.A).WaitStartedIDs([]uint64{lc.id}, bound) {
				return fail(kit.Undecided("long call did not reach its handler"))
			}
			longs = append(longs, lc)
			h("long call started on %d", op.A)
		case "longfinish":
			if len(longs) == 0 {
				continue
			}
			lc := longs[0]
			longs = longs[1:]
			if o := finishLong(lc); o != nil {
				return fail(*o)
			}
			h("long call on %d finished correctly", lc.a)
		case "streamopen":
			if len(streams) >= 3 {
				continue
			}
			sc := make(chan rpc.Stream, 1)
			go func() {
				st, _ := w.Tr.NewStream(w.Addrs[op.A], "S.Stream")
				sc <- st
			}()
			select {
			case st := <-sc:
				if st == nil {
					return fail(kit.Undecided("NewStream failed in a fault-free run"))
				}
				streams = append(streams, &openStream{a: op.A, st: st})
			case <-time.After(bound):
				return fail(kit.Undecided("NewStream did not return"))
			}
			h("stream opened on %d", op.A)
		case "streamecho":
			for _, s := range streams {
				if o := echo(s); o != nil {
					return fail(*o)
				}
			}
			h("%d open streams echo", len(streams))
		case "streamclose":
			if len(streams) == 0 {
				continue
			}
			s := streams[0]
			streams = streams[1:]
			if o := echo(s); o != nil {
				return fail(*o)
			}
			done := make(chan struct{})
			go func() { s.st.Close(); close(done) }()
			select {
			case <-done:
			case <-time.After(bound):
				return fail(kit.Undecided("Stream.Close did not return"))
			}
			h("stream on %d closed", s.a)
		case "call":
			r := w.Do(op.A, op.Form, kit.DirEcho, bound)
			if r.Timeout || r.Err != nil {
				// a gated env answers echo calls normally; failure here is unexpected but not C15's subject
				h("call %s(%d) -> %v timeout=%v", op.Form, op.A, r.Err, r.Timeout)
				if r.Timeout {
					return fail(kit.Undecided("call did not return"))
				}
			}
		case "sleep":
			before := time.Now()
			time.Sleep(time.Duration(op.Ticks) * tick)
			if len(longs)+len(streams) > 0 {
				busyTicks += op.Ticks
			}
			h("sleep %d ticks (busy: %d long calls, %d streams)", op.Ticks, len(longs), len(streams))
			// connections that stayed unused for the whole pause are reclaimed even while sibling
			// connections to the same address are busy: at most the busy ones may still be open
			if op.Ticks >= c.Cfg.KeepAlive+c.Cfg.IdleTO+6 {
				for ai, a := range w.Addrs {
					busy := 0
					for _, lc := range longs {
						if lc.a == ai {
							busy++
						}
					}
					for _, s := range streams {
						if s.a == ai {
							busy++
						}
					}
					deadline := time.Now().Add(300 * time.Millisecond)
					for w.Net.OpenClient(a) > busy {
						if time.Now().After(deadline) {
							o := kit.Fail("unused-not-reclaimed", "%d client connections to %s are open after %v without any new call although only %d of them carry a running call or an open stream (KeepAlive %d, IdleConnTimeout %d ticks): an unused connection was not retired/closed while a sibling is busy", w.Net.OpenClient(a), a, time.Since(before), busy, c.Cfg.KeepAlive, c.Cfg.IdleTO)
							o.Timing = true
							return fail(o)
						}
						time.Sleep(time.Millisecond)
					}
				}
				reclaimChecks++
			}
		case "handout":
			// a caller obtains a pooled connection (made recently used by a short call), is held up
			// for Ticks housekeeping ticks before it issues its request, and the request then runs
			// past the moment at which an unused connection would be closed
			if len(longs) >= 3 {
				continue
			}
			w.Do(op.A, "call", kit.DirEcho, bound)
			conn, release, err := rpc.VerifGetConn(w.Tr, w.Addrs[op.A])
			if err != nil {
				return fail(kit.Undecided("getConn failed in a fault-free run: %v", err))
			}
			time.Sleep(time.Duration(op.Ticks) * tick)
			id := w.NextID()
			args := kit.MakePayload(id, kit.DirGate, uint32(id), 48)
			lc := longCall{a: op.A, id: id, done: make(chan kit.CallResult, 1)}
			go func() {
				var reply []byte
				err := conn.Call("S.Echo", &args, &reply)
				release()
				lc.done <- kit.CallResult{ID: id, Err: err, ReplyOK: err == nil && bytes.Equal(reply, kit.Transform(args))}
			}()
			if !w.Env(op.A).WaitStartedIDs([]uint64{id}, prompt) {
				select {
				case r := <-lc.done:
					// closed before the request went out: not what C15 speaks about (no request had
					// been sent on the connection); counted
					h("handout on %d: the connection was closed before the request was issued (%v)", op.A, r.Err)
					handoutUnsent++
					continue
				default:
				}
				return fail(kit.Undecided("long call did not reach its handler"))
			}
			h("handout on %d: request issued %d ticks after the connection was handed out; executing", op.A, op.Ticks)
			wait := c.Cfg.IdleTO + 3 - op.Ticks
			if wait < 2 {
				wait = 2
			}
			time.Sleep(time.Duration(wait) * tick)
			busyTicks += wait
			if o := finishLong(lc); o != nil {
				return fail(*o)
			}
			handouts++
		case "storm":
			// Ticks iterations: a short call makes the address's connection recently used, then - at
			// a phase of the tick that moves with the iteration - a long call is started on it and
			// kept executing until housekeeping had the time to retire and close an unused connection
			if op.Ticks*(c.Cfg.IdleTO+3) > 600 {
				return kit.Outcome{Invalid: true}
			}
			for i := 0; i < op.Ticks; i++ {
				w.Do(op.A, "call", kit.DirEcho, bound)
				time.Sleep(time.Duration(i*137%1000) * tick / 1000)
				lc := longCall{a: op.A}
				lc.id, lc.done = w.DoAsync(op.A, "call", kit.DirGate, 120*time.Second)
				if !w.Env(op.A).WaitStartedIDs([]uint64{lc.id}, bound) {
					select {
					case r := <-lc.done:
						h("storm %d: long call failed before reaching its handler: %v", i, r.Err)
						continue
					default:
					}
					return fail(kit.Undecided("long call did not reach its handler"))
				}
				time.Sleep(time.Duration(c.Cfg.IdleTO+2) * tick)
				if o := finishLong(lc); o != nil {
					h("storm iteration %d on %d", i, op.A)
					return fail(*o)
				}
				storms++
			}
			busyTicks += op.Ticks * (c.Cfg.IdleTO + 2)
			h("storm of %d long calls on %d survived", op.Ticks, op.A)
		case "closeidle":
			w.Tr.CloseIdleConnections()
			if len(longs)+len(streams) > 0 {
				closeIdles++
			}
			h("CloseIdleConnections")
		default:
			return kit.Outcome{Invalid: true}
		}
	}
	// everything busy must have survived
	for _, s := range streams {
		if o := echo(s); o != nil {
			return fail(*o)
		}
	}
	for _, lc := range longs {
		if o := finishLong(lc); o != nil {
			return fail(*o)
		}
	}
	for _, s := range streams {
		done := make(chan struct{})
		s := s
		go func() { s.st.Close(); close(done) }()
		select {
		case <-done:
		case <-time.After(bound):
		}
	}
	h("all busy work finished correctly")
	// unused connections are retired after KeepAlive and closed after IdleConnTimeout
	reclaim := time.Duration(c.Cfg.KeepAlive+c.Cfg.IdleTO+5)*tick + 300*time.Millisecond
	deadline := time.Now().Add(reclaim)
	for {
		open := 0
		for _, a := range w.Addrs {
			open += w.Net.OpenClient(a)
		}
		if open == 0 {
			break
		}
		if time.Now().After(deadline) {
			o := kit.Fail("unused-not-reclaimed", "%d client connections are still open %v after the last use (KeepAlive %d + IdleConnTimeout %d ticks of %v, plus slack)", open, reclaim, c.Cfg.KeepAlive, c.Cfg.IdleTO, tick)
			o.Timing = true
			return fail(o)
		}
		time.Sleep(time.Millisecond)
	}
	h("all connections reclaimed after idleness")
	// Transport.Close closes every pooled connection and stops housekeeping: pooled connections
	// are (re)created first - as many per address as the limits allow - and, when IdleConnTimeout
	// leaves room for it, left unused until housekeeping has retired them to the idle set
	for i := range w.Addrs {
		for k := 0; k < c.Cfg.EffMax(); k++ {
			w.Do(i, "call", kit.DirEcho, bound)
		}
	}
	pooledBeforeClose := 0
	for _, a := range w.Addrs {
		pooledBeforeClose += w.Net.OpenClient(a)
	}
	idleAtClose := false
	if c.Cfg.IdleTO >= c.Cfg.KeepAlive+6 {
		time.Sleep(time.Duration(c.Cfg.KeepAlive+3) * tick)
		idleAtClose = true
	}
	h("%d pooled connections before Transport.Close (retired to idle: %v)", pooledBeforeClose, idleAtClose)
	if err := w.Tr.Close(); err != nil {
		return fail(kit.Fail("close-error", "Transport.Close returned %v", err))
	}
	deadline = time.Now().Add(prompt)
	for {
		open := 0
		for _, a := range w.Addrs {
			open += w.Net.OpenClient(a)
		}
		if open == 0 {
			break
		}
		if time.Now().After(deadline) {
			o := kit.Fail("close-leaves-connections", "%d pooled client connections are still open %v after Transport.Close", open, prompt)
			o.Timing = true
			return fail(o)
		}
		time.Sleep(time.Millisecond)
	}
	closed = true
	w.Close()
	left := kit.NewLibraryGoroutines(before, prompt)
	for _, g := range left {
		if strings.Contains(g.Stack, "(*Transport).run") {
			o := kit.Fail("housekeeping-survives-close", "the Transport's housekeeping goroutine is still running %v after Transport.Close: %s", prompt, g.TopFrames(3))
			o.Timing = true
			return fail(o)
		}
	}
	out := kit.Outcome{Counters: map[string]int{"ops": len(c.Ops), "busy_ticks": busyTicks}}
	if busyTicks >= 3 && closeIdles >= 1 {
		out.Nontrivial = true
	}
	if closeIdles > 0 {
		out.Classes = append(out.Classes, "closeidle-while-busy")
	}
	if busyTicks > c.Cfg.KeepAlive {
		out.Classes = append(out.Classes, "busy-longer-than-keepalive")
	}
	if reclaimChecks > 0 {
		out.Classes = append(out.Classes, "reclaim-checked-while-busy")
	}
	if handouts > 0 {
		out.Classes = append(out.Classes, "request-issued-ticks-after-handout")
		if c.Cfg.IdleTO >= c.Cfg.KeepAlive+4 {
			out.Classes = append(out.Classes, "handout-retire-window-open")
		}
	}
	out.Counters["handout_closed_before_send"] = handoutUnsent
	if storms > 0 {
		out.Classes = append(out.Classes, "long-calls-started-at-moving-tick-phases")
		out.Counters["storm_long_calls"] = storms
	}
	if idleAtClose && pooledBeforeClose >= 2 {
		out.Classes = append(out.Classes, "close-with-several-idle-connections")
	}
	return out
}

var prop = kit.Property[Case]{
	ID:    "C15",
	Level: "exploration",
	Rule:  "rapid-generated histories (5-26 steps) against a real Transport over the counting in-memory network (1-3 servers, tick 2 ms, KeepAlive and IdleConnTimeout from 1 tick up, pool limits 0-3): long calls (gated handlers) started and finished, echo streams opened / exercised / closed, ordinary calls, sleeps of 1-30 ticks and CloseIdleConnections while something is busy; storms of long calls started at moving phases of the tick on a just-used connection; hand-outs, where the harness obtains a pooled connection like Transport.Call does, waits 0..KeepAlive+3 ticks, then issues a long request on it which runs past IdleConnTimeout. Oracle: every long call returns nil with its own reply once its handler finishes and every open stream still echoes (a connection with an unanswered request or an open stream is never closed by housekeeping or CloseIdleConnections); after the last use all client connections are closed within KeepAlive+IdleConnTimeout+5 ticks (+300 ms); after Transport.Close every pooled connection is closed within 2 s and the housekeeping goroutine is gone. Non-trivial: something was busy during >= 3 ticks of sleep and >= 1 CloseIdleConnections; distinct by SHA-1 of the case.",
	Assumptions: []string{
		"time bounds must reproduce in isolation (rule T)",
		"the window between getConn handing out a connection and the call registering on it is owned through the hook VerifGetConn (the harness plays the caller's two steps with ticks in between) and additionally sampled by calls started at moving phases of the tick",
	},
	Gen: gen,
	Run: run,
}

func TestProperty(t *testing.T) { kit.Check(t, prop) }
