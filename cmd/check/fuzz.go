package main

import (
	"bytes"
	"encoding/json"
	"fmt"
	"os"
	"os/exec"
	"path/filepath"
	"regexp"
	"strconv"
	"strings"
	"time"
)

type fuzzReplay struct {
	Property   string `json:"property"`
	FuzzTarget string `json:"fuzz_target"`
	Corpus     string `json:"corpus,omitempty"`
	Seed       string `json:"seed,omitempty"` // a seed-corpus entry (f.Add) that already fails
	Output     string `json:"output,omitempty"`
}

var seedFailRe = regexp.MustCompile(`failure while testing seed corpus entry: [^/]+/(seed#\d+)`)

var execsRe = regexp.MustCompile(`execs: (\d+)`)

func (d *driver) goTestArgs(extra ...string) []string {
	args := []string{"test", "-tags", "verif"}
	if repoDir != "/repo" {
		args = append(args, "-modfile", filepath.Join(d.build, "alt.mod"))
	}
	return append(args, extra...)
}

// runFuzz runs the native fuzz targets of the thorough tier. A crasher becomes a replay file.
func (d *driver) runFuzz(cfg tierCfg) (reports []fuzzReport, violations []violation, undecided []string) {
	pkg := "./harness/" + strings.ToLower(d.id)
	for _, fz := range cfg.Fuzz {
		dir := filepath.Join(verifDir, "harness", strings.ToLower(d.id), "testdata", "fuzz", fz.Target)
		os.RemoveAll(dir)
		args := d.goTestArgs("-run", "^$", "-fuzz", "^"+fz.Target+"$", "-fuzztime", fmt.Sprintf("%ds", fz.Seconds), pkg)
		cmd := exec.Command("go", args...)
		cmd.Dir = verifDir
		cmd.Env = goEnv
		var out bytes.Buffer
		cmd.Stdout, cmd.Stderr = &out, &out
		start := time.Now()
		err := cmd.Run()
		rep := fuzzReport{Target: fz.Target, Seconds: int(time.Since(start).Seconds())}
		if m := execsRe.FindAllStringSubmatch(out.String(), -1); len(m) > 0 {
			rep.Execs, _ = strconv.Atoi(m[len(m)-1][1])
		}
		d.logf("native fuzz %s: %d execs in %ds, err=%v", fz.Target, rep.Execs, rep.Seconds, err)
		files, _ := filepath.Glob(filepath.Join(dir, "*"))
		if err != nil && len(files) == 0 {
			if m := seedFailRe.FindStringSubmatch(out.String()); m != nil {
				// a seed entry (valid frame or hostile constant) already fails
				rep.Crashers++
				fr := fuzzReplay{Property: d.id, FuzzTarget: fz.Target, Seed: m[1], Output: tail(out.String(), 3000)}
				rdir := filepath.Join(verifDir, "replays", d.id)
				os.MkdirAll(rdir, 0o755)
				path := filepath.Join(rdir, "fuzz-"+fz.Target+"-"+strings.Replace(m[1], "#", "", 1)+".json")
				jb, _ := json.MarshalIndent(fr, "", " ")
				os.WriteFile(path, jb, 0o644)
				violations = append(violations, violation{path: path, out: outcome{Clause: "native-fuzz", Violation: "native fuzz target " + fz.Target + " fails on its seed corpus entry " + m[1] + ": " + firstLine(failLine(out.String()))}})
			} else {
				undecided = append(undecided, fmt.Sprintf("native fuzz %s failed without a crasher:\n%s", fz.Target, tail(out.String(), 2000)))
			}
		}
		for _, f := range files {
			b, rerr := os.ReadFile(f)
			if rerr != nil {
				continue
			}
			rep.Crashers++
			fr := fuzzReplay{Property: d.id, FuzzTarget: fz.Target, Corpus: string(b), Output: tail(out.String(), 3000)}
			rdir := filepath.Join(verifDir, "replays", d.id)
			os.MkdirAll(rdir, 0o755)
			path := filepath.Join(rdir, "fuzz-"+fz.Target+"-"+filepath.Base(f)+".json")
			jb, _ := json.MarshalIndent(fr, "", " ")
			os.WriteFile(path, jb, 0o644)
			violations = append(violations, violation{path: path, out: outcome{Clause: "native-fuzz", Violation: "native fuzz target " + fz.Target + " failed: " + firstLine(failLine(out.String()))}})
		}
		os.RemoveAll(filepath.Join(verifDir, "harness", strings.ToLower(d.id), "testdata"))
		reports = append(reports, rep)
	}
	return
}

func failLine(s string) string {
	for _, l := range strings.Split(s, "\n") {
		t := strings.TrimSpace(l)
		if strings.HasPrefix(t, "panic:") || strings.HasPrefix(t, "fatal error:") || strings.Contains(t, "_test.go:") {
			return t
		}
	}
	return "see output in the replay file"
}

// replayFuzz re-runs a stored native fuzz crasher.
func (d *driver) replayFuzz(fr fuzzReplay, replayPath string) int {
	pkgDir := filepath.Join(verifDir, "harness", strings.ToLower(d.id))
	dir := filepath.Join(pkgDir, "testdata", "fuzz", fr.FuzzTarget)
	os.MkdirAll(dir, 0o755)
	defer os.RemoveAll(filepath.Join(pkgDir, "testdata"))
	name := "replay"
	if fr.Seed != "" {
		name = fr.Seed
	} else if err := os.WriteFile(filepath.Join(dir, "replay"), []byte(fr.Corpus), 0o644); err != nil {
		fmt.Fprintln(os.Stderr, err)
		return 2
	}
	args := d.goTestArgs("-run", "^"+fr.FuzzTarget+"$/^"+name+"$", "-count", "1", "./harness/"+strings.ToLower(d.id))
	cmd := exec.Command("go", args...)
	cmd.Dir = verifDir
	cmd.Env = goEnv
	out, err := cmd.CombinedOutput()
	if err != nil {
		fmt.Printf("VIOLATION property=%s replay=%s\n", d.id, replayPath)
		fmt.Println(tail(string(out), 2500))
		return 1
	}
	fmt.Printf("replay: native fuzz input passes\n")
	return 0
}
