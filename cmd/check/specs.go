package main

import "time"

// tierCfg bounds one tier of one property by case counts (never by a time limit).
type tierCfg struct {
	Shards       int   // rapid shards (one OS process each)
	Checks       int   // generated cases per shard
	EnumShards   int   // enumeration shards (0 = the property has no enumeration in this tier)
	Procs        []int // GOMAXPROCS values cycled over shards
	Parallel     int   // max worker processes at once
	TimeoutS     int   // per-process deadline, far above the expected duration
	ReplayRepeat int   // repetitions when confirming a failure in isolation
	ShrinkS      int   // rapid shrink budget
	Fuzz         []fuzzCfg
}

type fuzzCfg struct {
	Target  string
	Seconds int
}

func (c tierCfg) timeout() time.Duration {
	if c.TimeoutS <= 0 {
		return 20 * time.Minute
	}
	return time.Duration(c.TimeoutS) * time.Second
}

func (c tierCfg) shrinkTime() string {
	if c.ShrinkS <= 0 {
		return "20s"
	}
	return (time.Duration(c.ShrinkS) * time.Second).String()
}

type propSpec struct {
	Level       string
	Quick       tierCfg
	Thorough    tierCfg
	ReplayProcs int
}

func (p propSpec) tier(t string) tierCfg {
	if t == "thorough" {
		return p.Thorough
	}
	return p.Quick
}

func (p propSpec) replayProcs() int {
	if p.ReplayProcs > 0 {
		return p.ReplayProcs
	}
	return 4
}

var mixedProcs = []int{4, 2, 1, 8, 4, 2, 16, 4}

var specs = map[string]propSpec{
	"C07": {Level: "exploration",
		Quick:    tierCfg{Shards: 16, Checks: 3000, EnumShards: 4, Procs: []int{2}, TimeoutS: 600, ReplayRepeat: 1},
		Thorough: tierCfg{Shards: 16, Checks: 100000, EnumShards: 8, Procs: []int{2}, TimeoutS: 3000, ReplayRepeat: 1,
			Fuzz: []fuzzCfg{{"FuzzRequestHeader", 120}, {"FuzzResponseHeader", 120}}}},
}

func init() {
	specs["C02"] = propSpec{Level: "exploration",
		Quick:    tierCfg{Shards: 16, Checks: 400, Procs: mixedProcs, TimeoutS: 600, ReplayRepeat: 30},
		Thorough: tierCfg{Shards: 16, Checks: 10000, Procs: mixedProcs, TimeoutS: 3000, ReplayRepeat: 200}}
}

func init() {
	specs["C19"] = propSpec{Level: "exploration",
		Quick:    tierCfg{Shards: 16, Checks: 300, Procs: mixedProcs, TimeoutS: 900, ReplayRepeat: 20},
		Thorough: tierCfg{Shards: 16, Checks: 8000, Procs: mixedProcs, TimeoutS: 3600, ReplayRepeat: 100}}
}

func init() {
	specs["C01"] = propSpec{Level: "exploration",
		Quick:    tierCfg{Shards: 16, Checks: 250, Procs: mixedProcs, TimeoutS: 900, ReplayRepeat: 20},
		Thorough: tierCfg{Shards: 16, Checks: 6000, Procs: mixedProcs, TimeoutS: 5400, ReplayRepeat: 100}}
}

func init() {
	specs["C06"] = propSpec{Level: "exploration",
		Quick:    tierCfg{Shards: 16, Checks: 150, Procs: mixedProcs, TimeoutS: 900, ReplayRepeat: 20},
		Thorough: tierCfg{Shards: 16, Checks: 4000, Procs: mixedProcs, TimeoutS: 5400, ReplayRepeat: 100}}
}

func init() {
	specs["C11"] = propSpec{Level: "exploration",
		Quick:    tierCfg{Shards: 16, Checks: 120, Procs: mixedProcs, TimeoutS: 900, ReplayRepeat: 10},
		Thorough: tierCfg{Shards: 16, Checks: 3000, Procs: mixedProcs, TimeoutS: 5400, ReplayRepeat: 50}}
}

func init() {
	specs["C05"] = propSpec{Level: "exploration",
		Quick:    tierCfg{Shards: 16, Checks: 150, Procs: mixedProcs, TimeoutS: 900, ReplayRepeat: 30},
		Thorough: tierCfg{Shards: 16, Checks: 3000, Procs: mixedProcs, TimeoutS: 5400, ReplayRepeat: 100}}
}

func init() {
	specs["C04"] = propSpec{Level: "exploration",
		Quick:    tierCfg{Shards: 16, Checks: 200, Procs: mixedProcs, TimeoutS: 900, ReplayRepeat: 30},
		Thorough: tierCfg{Shards: 16, Checks: 4000, Procs: mixedProcs, TimeoutS: 5400, ReplayRepeat: 100}}
}

func init() {
	specs["C08"] = propSpec{Level: "fault_enumeration",
		Quick:    tierCfg{Shards: 8, Checks: 300, EnumShards: 16, Procs: mixedProcs, TimeoutS: 900, ReplayRepeat: 20},
		Thorough: tierCfg{Shards: 16, Checks: 5000, EnumShards: 16, Procs: mixedProcs, TimeoutS: 5400, ReplayRepeat: 100,
			Fuzz: []fuzzCfg{{"FuzzServeFrames", 180}, {"FuzzClientFrames", 180}}}}
}

func init() {
	specs["C09"] = propSpec{Level: "exploration",
		Quick:    tierCfg{Shards: 16, Checks: 200, Procs: mixedProcs, TimeoutS: 1200, ReplayRepeat: 20},
		Thorough: tierCfg{Shards: 16, Checks: 5000, Procs: mixedProcs, TimeoutS: 7200, ReplayRepeat: 100}}
}

func init() {
	specs["C10"] = propSpec{Level: "fault_enumeration",
		Quick:    tierCfg{Shards: 8, Checks: 100, EnumShards: 8, Procs: []int{4, 2, 8, 4}, Parallel: 8, TimeoutS: 1200, ReplayRepeat: 10},
		Thorough: tierCfg{Shards: 8, Checks: 3000, EnumShards: 8, Procs: []int{4, 2, 8, 4}, Parallel: 8, TimeoutS: 7200, ReplayRepeat: 40}}
}

func init() {
	specs["C03"] = propSpec{Level: "fault_enumeration",
		Quick:    tierCfg{Shards: 8, Checks: 150, EnumShards: 8, Procs: []int{4, 2, 8, 4}, Parallel: 8, TimeoutS: 1200, ReplayRepeat: 20},
		Thorough: tierCfg{Shards: 8, Checks: 4000, EnumShards: 8, Procs: []int{4, 2, 8, 4}, Parallel: 8, TimeoutS: 7200, ReplayRepeat: 60}}
}

func init() {
	tp := []int{4, 2, 8, 4}
	specs["C13"] = propSpec{Level: "exploration",
		Quick:    tierCfg{Shards: 8, Checks: 80, Procs: tp, Parallel: 8, TimeoutS: 1200, ReplayRepeat: 10},
		Thorough: tierCfg{Shards: 8, Checks: 1500, Procs: tp, Parallel: 8, TimeoutS: 7200, ReplayRepeat: 30}}
	specs["C14"] = propSpec{Level: "exploration",
		Quick:    tierCfg{Shards: 8, Checks: 100, Procs: tp, Parallel: 8, TimeoutS: 1200, ReplayRepeat: 10},
		Thorough: tierCfg{Shards: 8, Checks: 1500, Procs: tp, Parallel: 8, TimeoutS: 7200, ReplayRepeat: 30}}
	specs["C15"] = propSpec{Level: "exploration",
		Quick:    tierCfg{Shards: 8, Checks: 30, Procs: tp, Parallel: 8, TimeoutS: 1200, ReplayRepeat: 10},
		Thorough: tierCfg{Shards: 8, Checks: 1000, Procs: tp, Parallel: 8, TimeoutS: 7200, ReplayRepeat: 30}}
	specs["C20"] = propSpec{Level: "exploration",
		Quick:    tierCfg{Shards: 8, Checks: 40, Procs: tp, Parallel: 8, TimeoutS: 1200, ReplayRepeat: 10},
		Thorough: tierCfg{Shards: 8, Checks: 1500, Procs: tp, Parallel: 8, TimeoutS: 7200, ReplayRepeat: 30}}
}

func init() {
	specs["C16"] = propSpec{Level: "exploration",
		Quick:    tierCfg{Shards: 16, Checks: 25, Procs: []int{4}, TimeoutS: 1200, ReplayRepeat: 10},
		Thorough: tierCfg{Shards: 16, Checks: 600, Procs: []int{4}, TimeoutS: 7200, ReplayRepeat: 30}}
	specs["C17"] = propSpec{Level: "exploration",
		Quick:    tierCfg{Shards: 16, Checks: 20, Procs: []int{4}, Parallel: 8, TimeoutS: 1200, ReplayRepeat: 10},
		Thorough: tierCfg{Shards: 16, Checks: 500, Procs: []int{4}, Parallel: 8, TimeoutS: 7200, ReplayRepeat: 30}}
	specs["C18"] = propSpec{Level: "exploration",
		Quick:    tierCfg{Shards: 16, Checks: 20, Procs: []int{4}, TimeoutS: 1200, ReplayRepeat: 10},
		Thorough: tierCfg{Shards: 16, Checks: 500, Procs: []int{4}, TimeoutS: 7200, ReplayRepeat: 30}}
}

func init() {
	specs["C12"] = propSpec{Level: "exploration",
		Quick:    tierCfg{Shards: 8, Checks: 40, EnumShards: 8, Procs: []int{4}, Parallel: 8, TimeoutS: 600, ReplayRepeat: 3},
		Thorough: tierCfg{Shards: 8, Checks: 1500, EnumShards: 8, Procs: []int{4}, Parallel: 8, TimeoutS: 10800, ReplayRepeat: 10}}
}
