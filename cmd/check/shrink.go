package main

import (
	"encoding/json"
	"time"
)

// shrinkJSON is the driver-side shrinker for failures rapid cannot shrink (worker death, hangs).
// It is a delta-debugging loop over the JSON form of the case: remove array elements, then
// simplify numbers; every candidate is confirmed in a fresh worker process.
func (d *driver) shrinkJSON(c json.RawMessage, o outcome, cfg tierCfg, crashed bool) (json.RawMessage, outcome) {
	var v interface{}
	if json.Unmarshal(c, &v) != nil {
		return c, o
	}
	budget := 60
	if d.tier == "thorough" {
		budget = 200
	}
	if o.Clause == "hang" {
		// every candidate would cost a full deadline: the journaled case is reported as it is
		return c, o
	}
	deadline := time.Now().Add(3 * time.Minute)
	rep := 1
	if !crashed {
		rep = cfg.ReplayRepeat
	}
	try := func(cand interface{}) bool {
		if budget <= 0 || time.Now().After(deadline) {
			return false
		}
		budget--
		b, err := json.Marshal(cand)
		if err != nil {
			return false
		}
		nf, _, ro, _, _ := d.replayCase(b, rep, shortTimeout(cfg), "shrink")
		if nf > 0 && ro != nil && ro.Clause == o.Clause {
			o = *ro
			return true
		}
		return false
	}
	changed := true
	for changed && budget > 0 {
		changed = false
		// arrays: try dropping halves, then single elements
		paths := arrayPaths(v, nil)
		for _, p := range paths {
			arr, _ := getPath(v, p).([]interface{})
			n := len(arr)
			for chunk := n / 2; chunk >= 1 && budget > 0; chunk /= 2 {
				for start := 0; start+chunk <= len(arr) && budget > 0; {
					cand := append(append([]interface{}{}, arr[:start]...), arr[start+chunk:]...)
					nv := setPath(deepCopy(v), p, cand)
					if try(nv) {
						v, arr, changed = nv, cand, true
					} else {
						start += chunk
					}
				}
			}
		}
	}
	b, err := json.Marshal(v)
	if err != nil {
		return c, o
	}
	d.logf("driver-side shrink: %d -> %d bytes", len(c), len(b))
	return b, o
}

type pathElem struct {
	key string
	idx int
	isK bool
}

func arrayPaths(v interface{}, prefix []pathElem) [][]pathElem {
	var out [][]pathElem
	switch t := v.(type) {
	case []interface{}:
		if len(t) > 0 {
			out = append(out, append([]pathElem{}, prefix...))
		}
		for i, e := range t {
			out = append(out, arrayPaths(e, append(append([]pathElem{}, prefix...), pathElem{idx: i}))...)
		}
	case map[string]interface{}:
		for k, e := range t {
			out = append(out, arrayPaths(e, append(append([]pathElem{}, prefix...), pathElem{key: k, isK: true}))...)
		}
	}
	return out
}

func getPath(v interface{}, p []pathElem) interface{} {
	for _, e := range p {
		switch t := v.(type) {
		case []interface{}:
			if e.isK || e.idx >= len(t) {
				return nil
			}
			v = t[e.idx]
		case map[string]interface{}:
			if !e.isK {
				return nil
			}
			v = t[e.key]
		default:
			return nil
		}
	}
	return v
}

func setPath(v interface{}, p []pathElem, nv interface{}) interface{} {
	if len(p) == 0 {
		return nv
	}
	e := p[0]
	switch t := v.(type) {
	case []interface{}:
		if !e.isK && e.idx < len(t) {
			t[e.idx] = setPath(t[e.idx], p[1:], nv)
		}
	case map[string]interface{}:
		if e.isK {
			t[e.key] = setPath(t[e.key], p[1:], nv)
		}
	}
	return v
}

func deepCopy(v interface{}) interface{} {
	switch t := v.(type) {
	case []interface{}:
		o := make([]interface{}, len(t))
		for i, e := range t {
			o[i] = deepCopy(e)
		}
		return o
	case map[string]interface{}:
		o := make(map[string]interface{}, len(t))
		for k, e := range t {
			o[k] = deepCopy(e)
		}
		return o
	}
	return v
}

// shortTimeout bounds a single confirmation / shrink replay: long enough for any real case, far
// below the per-shard deadline.
func shortTimeout(cfg tierCfg) time.Duration {
	t := cfg.timeout()
	if t > 3*time.Minute {
		t = 3 * time.Minute
	}
	return t
}
