// Command check is the driver of the verification machinery: it rebuilds a property's worker
// against the current working tree of hslam/rpc, runs saved regression cases, generated cases
// (rapid, sharded), enumerations and (thorough tier) native fuzz targets, confirms and shrinks
// failures, compares them with known_findings.json, writes evidence and sets the exit code.
//
// exit 0: property held on everything explored; 1: violation (VIOLATION line printed);
// 2: machinery could not decide (never prints VIOLATION).
package main

import (
	"bytes"
	"crypto/sha1"
	"encoding/hex"
	"encoding/json"
	"fmt"
	"os"
	"os/exec"
	"path/filepath"
	"regexp"
	"sort"
	"strconv"
	"strings"
	"sync"
	"time"
)

type outcome struct {
	Violation  string         `json:"violation,omitempty"`
	Undecided  string         `json:"undecided,omitempty"`
	Clause     string         `json:"clause,omitempty"`
	Sig        string         `json:"sig,omitempty"`
	Timing     bool           `json:"timing,omitempty"`
	Invalid    bool           `json:"invalid,omitempty"`
	Nontrivial bool           `json:"nontrivial,omitempty"`
	Classes    []string       `json:"classes,omitempty"`
	Counters   map[string]int `json:"counters,omitempty"`
	History    []string       `json:"history,omitempty"`
}

type failure struct {
	Case    json.RawMessage `json:"case"`
	Outcome outcome         `json:"outcome"`
	Final   bool            `json:"final,omitempty"`
	crash   bool
	stderr  string
	shard   string
}

type result struct {
	Property     string            `json:"property"`
	Mode         string            `json:"mode"`
	Level        string            `json:"level"`
	Rule         string            `json:"rule"`
	Assumptions  []string          `json:"assumptions"`
	Executed     int               `json:"executed"`
	Invalid      int               `json:"invalid"`
	Nontrivial   []string          `json:"nontrivial_hashes"`
	Classes      map[string]int    `json:"classes"`
	Counters     map[string]int    `json:"counters"`
	Samples      []json.RawMessage `json:"samples"`
	Failures     []failure         `json:"failures"`
	Exhaustive   []string          `json:"exhaustive,omitempty"`
	EnumComplete bool              `json:"enum_complete,omitempty"`
	WallS        float64           `json:"wall_s"`
	ReplayRuns   int               `json:"replay_runs,omitempty"`
	ReplayFails  int               `json:"replay_fails,omitempty"`
	Done         bool              `json:"done"`
}

type replayFile struct {
	Property string          `json:"property"`
	Case     json.RawMessage `json:"case"`
	Outcome  *outcome        `json:"outcome,omitempty"`
	Repeat   int             `json:"repeat,omitempty"`
	Rate     string          `json:"observed_failure_rate,omitempty"`
	Note     string          `json:"note,omitempty"`
}

type knownFinding struct {
	Status   string `json:"status"` // known | fixed
	Property string `json:"property"`
	Clause   string `json:"clause,omitempty"` // regexp on the failing clause
	Sig      string `json:"sig,omitempty"`    // regexp on the trigger-class signature
	Commit   string `json:"commit,omitempty"`
	What     string `json:"what"`
}

var (
	verifDir = "/verif"
	repoDir  = "/repo"
	goEnv    []string
)

func main() {
	if len(os.Args) < 2 {
		fmt.Fprintln(os.Stderr, "usage: check <ID> [--tier quick|thorough] [--replay FILE]")
		os.Exit(2)
	}
	id := strings.ToUpper(os.Args[1])
	tier := os.Getenv("VERIF_TIER")
	replay := ""
	for i := 2; i < len(os.Args); i++ {
		switch os.Args[i] {
		case "--tier":
			i++
			tier = os.Args[i]
		case "--replay":
			i++
			replay = os.Args[i]
		}
	}
	if tier == "" {
		tier = "quick"
	}
	if d := os.Getenv("VERIF_DIR"); d != "" {
		verifDir = d
	} else if exe, err := os.Executable(); err == nil {
		// bin/check lives in <verif>/bin
		if d := filepath.Dir(filepath.Dir(exe)); fileExists(filepath.Join(d, "properties.jsonl")) {
			verifDir = d
		}
	}
	if r := os.Getenv("VERIF_REPO"); r != "" {
		repoDir = r
	}
	seed := int64(1)
	if s := os.Getenv("VERIF_SEED"); s != "" {
		if v, err := strconv.ParseInt(s, 10, 64); err == nil {
			seed = v
		}
	}
	spec, ok := specs[id]
	if !ok {
		fmt.Fprintf(os.Stderr, "unknown property %s\n", id)
		os.Exit(2)
	}
	goEnv = append(os.Environ(), "GOFLAGS=-mod=mod", "GOPROXY=off", "GOSUMDB=off", "GOTOOLCHAIN=local", "CGO_ENABLED=0")
	d := &driver{id: id, tier: tier, seed: seed, spec: spec, start: time.Now()}
	os.Exit(d.run(replay))
}

func fileExists(p string) bool { _, err := os.Stat(p); return err == nil }

type driver struct {
	id    string
	tier  string
	seed  int64
	spec  propSpec
	start time.Time
	build string // build dir
	bin   string
	log   []string
}

func (d *driver) logf(format string, a ...interface{}) {
	s := fmt.Sprintf(format, a...)
	fmt.Fprintf(os.Stderr, "[check %s %s +%.1fs] %s\n", d.id, d.tier, time.Since(d.start).Seconds(), s)
}

func (d *driver) buildWorker() error {
	d.build = filepath.Join(verifDir, ".build", d.id+"-"+d.tier)
	os.RemoveAll(d.build)
	if err := os.MkdirAll(d.build, 0o755); err != nil {
		return err
	}
	d.bin = filepath.Join(d.build, "worker.test")
	args := []string{"test", "-c", "-tags", "verif", "-o", d.bin}
	if repoDir != "/repo" {
		mod, err := os.ReadFile(filepath.Join(verifDir, "go.mod"))
		if err != nil {
			return err
		}
		mod = bytes.Replace(mod, []byte("=> /repo"), []byte("=> "+repoDir), 1)
		mf := filepath.Join(d.build, "alt.mod")
		os.WriteFile(mf, mod, 0o644)
		sum, _ := os.ReadFile(filepath.Join(verifDir, "go.sum"))
		os.WriteFile(filepath.Join(d.build, "alt.sum"), sum, 0o644)
		args = append(args, "-modfile", mf)
	}
	args = append(args, "./harness/"+strings.ToLower(d.id))
	cmd := exec.Command("go", args...)
	cmd.Dir = verifDir
	cmd.Env = goEnv
	out, err := cmd.CombinedOutput()
	if err != nil {
		return fmt.Errorf("build failed: %v\n%s", err, out)
	}
	return nil
}

type shardRun struct {
	name    string
	args    []string
	procs   int
	out     string
	journal string
	stderr  string
	exit    int
	timeout bool
	res     *result
}

func (d *driver) runShard(s *shardRun, timeout time.Duration) {
	s.out = filepath.Join(d.build, s.name+".result.json")
	s.journal = filepath.Join(d.build, s.name+".journal")
	args := append([]string{"-test.run", "^TestProperty$", "-test.timeout", fmt.Sprintf("%ds", int(timeout.Seconds())),
		"-verif.out", s.out, "-verif.journal", s.journal, "-verif.tier", d.tier}, s.args...)
	cmd := exec.Command(d.bin, args...)
	cmd.Dir = d.build
	cmd.Env = append(os.Environ(), fmt.Sprintf("GOMAXPROCS=%d", s.procs), "VERIF_BUILD="+d.build)
	var eb bytes.Buffer
	cmd.Stdout = &eb
	cmd.Stderr = &eb
	done := make(chan error, 1)
	if err := cmd.Start(); err != nil {
		s.exit = -1
		s.stderr = err.Error()
		return
	}
	go func() { done <- cmd.Wait() }()
	select {
	case err := <-done:
		if err != nil {
			if ee, ok := err.(*exec.ExitError); ok {
				s.exit = ee.ExitCode()
			} else {
				s.exit = -1
			}
		}
	case <-time.After(timeout + 30*time.Second):
		cmd.Process.Kill()
		<-done
		s.exit = -1
		s.timeout = true
	}
	s.stderr = eb.String()
	if strings.Contains(s.stderr, "panic: test timed out") {
		s.timeout = true
	}
	if b, err := os.ReadFile(s.out); err == nil {
		var r result
		if json.Unmarshal(b, &r) == nil {
			s.res = &r
		}
	}
}

// openJournalCase returns the last case that was begun but not ended.
func openJournalCase(path string) json.RawMessage {
	b, err := os.ReadFile(path)
	if err != nil {
		return nil
	}
	lines := bytes.Split(b, []byte("\n"))
	var last []byte
	open := false
	for _, l := range lines {
		switch {
		case bytes.HasPrefix(l, []byte("B ")):
			last = l[2:]
			open = true
		case len(l) == 1 && (l[0] == 'E' || l[0] == 'F'):
			open = false
		}
	}
	if open && json.Valid(last) {
		return append(json.RawMessage(nil), last...)
	}
	return nil
}

func tail(s string, n int) string {
	if len(s) <= n {
		return s
	}
	return s[len(s)-n:]
}

var panicFrameRe = regexp.MustCompile(`(?m)^(github\.com/hslam/[^\s(]+(?:\([^)]*\))?[^\s(]*)\(`)

func panicSignature(stderr string) (kind, frame string) {
	idx := strings.Index(stderr, "panic: ")
	if j := strings.Index(stderr, "fatal error: "); j >= 0 && (idx < 0 || j < idx) {
		idx = j
	}
	if idx < 0 {
		return "", ""
	}
	rest := stderr[idx:]
	line := rest
	if k := strings.Index(rest, "\n"); k >= 0 {
		line = rest[:k]
	}
	m := panicFrameRe.FindStringSubmatch(rest)
	if m != nil {
		frame = m[1]
	}
	return line, frame
}

// saveInconclusive keeps the case and outcome of a candidate that did not reproduce in isolation
// under the build directory (never under replays/): material for studying schedule-dependent
// observations by hand.
func (d *driver) saveInconclusive(f failure) {
	dir := filepath.Join(d.build, "inconclusive")
	os.MkdirAll(dir, 0o755)
	h := sha1.Sum(f.Case)
	b, _ := json.MarshalIndent(map[string]interface{}{"property": d.id, "case": f.Case, "outcome": f.Outcome, "shard": f.shard}, "", " ")
	os.WriteFile(filepath.Join(dir, hex.EncodeToString(h[:6])+".json"), b, 0o644)
}

// panicInLibrary reports whether the goroutine that panicked has a frame of hslam/rpc itself on
// its stack (the panic may surface in a dependency the library called into).
func panicInLibrary(stderr string) bool {
	idx := strings.Index(stderr, "panic: ")
	if j := strings.Index(stderr, "fatal error: "); j >= 0 && (idx < 0 || j < idx) {
		idx = j
	}
	if idx < 0 {
		return false
	}
	rest := stderr[idx:]
	g := strings.Index(rest, "\ngoroutine ")
	if g < 0 {
		return false
	}
	block := rest[g+1:]
	if end := strings.Index(block, "\n\n"); end >= 0 {
		block = block[:end]
	}
	for _, line := range strings.Split(block, "\n") {
		if strings.HasPrefix(line, "verif/harness") {
			// the panic was raised in (or below a callback into) harness code: a harness defect,
			// never evidence against the library
			return false
		}
		if strings.HasPrefix(line, "github.com/hslam/rpc.") || strings.HasPrefix(line, "created by github.com/hslam/rpc.") {
			return true
		}
	}
	return false
}

// replayCase runs one case in a fresh worker process.
func (d *driver) replayCase(c json.RawMessage, repeat int, timeout time.Duration, tag string) (fails, runs int, out *outcome, crashed bool, stderr string) {
	h := sha1.Sum(c)
	name := "replay-" + tag + "-" + hex.EncodeToString(h[:4])
	path := filepath.Join(d.build, name+".case.json")
	rf := replayFile{Property: d.id, Case: c}
	b, _ := json.Marshal(rf)
	os.WriteFile(path, b, 0o644)
	s := &shardRun{name: name, procs: d.spec.replayProcs(), args: []string{"-verif.replay", path, "-verif.repeat", strconv.Itoa(repeat)}}
	d.runShard(s, timeout)
	os.Remove(path)
	if s.res != nil && s.res.Done {
		if s.res.Invalid > 0 {
			return 0, 0, nil, false, s.stderr
		}
		var o *outcome
		if len(s.res.Failures) > 0 {
			o = &s.res.Failures[0].Outcome
		}
		return s.res.ReplayFails, s.res.ReplayRuns, o, false, s.stderr
	}
	if s.exit != 0 {
		// died (or hung) while executing
		kind, frame := panicSignature(s.stderr)
		cl := "crash"
		if s.timeout {
			cl = "hang"
			kind = "worker did not finish the case within its deadline"
		}
		return 1, 1, &outcome{Violation: kind, Clause: cl, Sig: frame}, true, s.stderr
	}
	return 0, repeat, nil, false, s.stderr
}

func (d *driver) loadKnown() []knownFinding {
	var f struct {
		Findings []knownFinding `json:"findings"`
	}
	b, err := os.ReadFile(filepath.Join(verifDir, "known_findings.json"))
	if err != nil {
		return nil
	}
	json.Unmarshal(b, &f)
	return f.Findings
}

func matchKnown(known []knownFinding, id string, o *outcome) *knownFinding {
	for i := range known {
		k := &known[i]
		if k.Status != "known" || k.Property != id {
			continue
		}
		if k.Clause != "" {
			if ok, _ := regexp.MatchString(k.Clause, o.Clause); !ok {
				continue
			}
		}
		if k.Sig != "" {
			if ok, _ := regexp.MatchString(k.Sig, o.Sig); !ok {
				continue
			}
		}
		return k
	}
	return nil
}

type violation struct {
	path string
	out  outcome
}

func (d *driver) writeReplay(c json.RawMessage, o *outcome, repeat int, rate, note string) string {
	dir := filepath.Join(verifDir, "replays", d.id)
	os.MkdirAll(dir, 0o755)
	h := sha1.Sum(c)
	path := filepath.Join(dir, hex.EncodeToString(h[:6])+".json")
	rf := replayFile{Property: d.id, Case: c, Outcome: o, Repeat: repeat, Rate: rate, Note: note}
	b, _ := json.MarshalIndent(rf, "", " ")
	os.WriteFile(path, b, 0o644)
	return path
}

func (d *driver) run(replay string) int {
	if err := d.buildWorker(); err != nil {
		fmt.Fprintln(os.Stderr, err)
		return 2
	}
	d.logf("worker built")
	cfg := d.spec.tier(d.tier)
	if os.Getenv("VERIF_ONLY_FUZZ") != "" {
		// development aid: exercise only the native fuzz targets of the thorough tier
		cfg.Shards, cfg.EnumShards = 0, 0
	}
	if replay != "" {
		b, err := os.ReadFile(replay)
		if err != nil {
			fmt.Fprintln(os.Stderr, err)
			return 2
		}
		var fzr fuzzReplay
		if json.Unmarshal(b, &fzr) == nil && fzr.FuzzTarget != "" {
			return d.replayFuzz(fzr, replay)
		}
		var rf replayFile
		if json.Unmarshal(b, &rf) != nil || len(rf.Case) == 0 {
			rf.Case = b
		}
		rep := rf.Repeat
		if rep <= 0 {
			rep = cfg.ReplayRepeat
		}
		fails, runs, o, _, stderr := d.replayCase(rf.Case, rep, cfg.timeout(), "user")
		if fails > 0 {
			fmt.Printf("VIOLATION property=%s replay=%s\n", d.id, replay)
			fmt.Printf("replay: %d/%d repetitions violated: [%s] %s\n", fails, runs, o.Clause, o.Violation)
			for _, h := range o.History {
				fmt.Println("  " + h)
			}
			return 1
		}
		if runs == 0 {
			fmt.Fprintf(os.Stderr, "replay: case invalid or not executed\n%s\n", tail(stderr, 2000))
			return 2
		}
		if o != nil && o.Undecided != "" {
			fmt.Fprintf(os.Stderr, "replay: UNDECIDED: %s\n", o.Undecided)
			return 2
		}
		fmt.Printf("replay: 0/%d repetitions violated\n", runs)
		return 0
	}

	known := d.loadKnown()
	knownHit := map[string]bool{}
	for _, k := range known {
		// every listed (unrepaired) finding of this property is reported on every run
		if k.Status == "known" && k.Property == d.id && !knownHit[k.What] {
			knownHit[k.What] = true
			fmt.Printf("KNOWN-FINDING: property=%s %s\n", d.id, k.What)
		}
	}
	var shards []*shardRun
	// regression cases first (bypassing rapid)
	regress, _ := filepath.Glob(filepath.Join(verifDir, "regress", d.id, "*.json"))
	sort.Strings(regress)
	regressRuns := 0
	var fails []failure
	for _, rp := range regress {
		b, err := os.ReadFile(rp)
		if err != nil {
			continue
		}
		var rf replayFile
		if json.Unmarshal(b, &rf) != nil || len(rf.Case) == 0 {
			continue
		}
		rep := rf.Repeat
		if rep <= 0 {
			rep = 3
		}
		nf, runs, o, crashed, stderr := d.replayCase(rf.Case, rep, cfg.timeout(), "regress")
		regressRuns += runs
		if nf > 0 {
			o.History = append(o.History, "regression case "+filepath.Base(rp))
			fails = append(fails, failure{Case: rf.Case, Outcome: *o, crash: crashed, stderr: stderr, shard: "regress", Final: true})
		}
	}
	if len(regress) > 0 {
		d.logf("regression cases: %d files, %d runs, %d failing", len(regress), regressRuns, len(fails))
	}

	procsCycle := cfg.Procs
	if len(procsCycle) == 0 {
		procsCycle = []int{4}
	}
	for i := 0; i < cfg.Shards; i++ {
		rs := d.seed*1000003 + int64(7919*i) + 1
		if rs == 0 {
			rs = 1
		}
		if rs < 0 {
			rs = -rs
		}
		shards = append(shards, &shardRun{name: fmt.Sprintf("rapid-%02d", i), procs: procsCycle[i%len(procsCycle)],
			args: []string{"-verif.mode", "rapid", "-rapid.seed", strconv.FormatInt(rs, 10), "-rapid.checks", strconv.Itoa(cfg.Checks),
				"-rapid.shrinktime", cfg.shrinkTime(), "-rapid.nofailfile"}})
	}
	for i := 0; i < cfg.EnumShards; i++ {
		shards = append(shards, &shardRun{name: fmt.Sprintf("enum-%02d", i), procs: procsCycle[i%len(procsCycle)],
			args: []string{"-verif.mode", "enum", "-verif.shard", strconv.Itoa(i), "-verif.shards", strconv.Itoa(cfg.EnumShards)}})
	}
	par := cfg.Parallel
	if par <= 0 {
		par = 16
	}
	sem := make(chan struct{}, par)
	var wg sync.WaitGroup
	for _, s := range shards {
		wg.Add(1)
		go func(s *shardRun) {
			defer wg.Done()
			sem <- struct{}{}
			d.runShard(s, cfg.timeout())
			<-sem
		}(s)
	}
	wg.Wait()
	d.logf("%d shards finished", len(shards))

	// merge
	ev := evidence{PropertyID: d.id, Tier: d.tier, Seed: d.seed}
	hashes := map[string]struct{}{}
	classes := map[string]int{}
	counters := map[string]int{}
	var samples []json.RawMessage
	undecided := []string{}
	enumComplete := cfg.EnumShards > 0
	var exhaustive []string
	requested := 0
	for _, s := range shards {
		if s.res == nil {
			if c := openJournalCase(s.journal); c != nil {
				kind, frame := panicSignature(s.stderr)
				cl := "crash"
				if s.timeout {
					cl, kind = "hang", "worker did not finish the case within its deadline"
				}
				fails = append(fails, failure{Case: c, Outcome: outcome{Violation: kind, Clause: cl, Sig: frame}, crash: true, stderr: s.stderr, shard: s.name, Final: true})
			} else {
				undecided = append(undecided, fmt.Sprintf("%s: exit %d, no result file\n%s", s.name, s.exit, tail(s.stderr, 1500)))
			}
			continue
		}
		r := s.res
		if ev.Level == "" {
			ev.Level, ev.Coverage.Rule, ev.Assumptions = r.Level, r.Rule, r.Assumptions
		}
		ev.Coverage.Evaluations += r.Executed
		for _, h := range r.Nontrivial {
			hashes[h] = struct{}{}
		}
		for k, v := range r.Classes {
			classes[k] += v
		}
		for k, v := range r.Counters {
			counters[k] += v
		}
		if len(samples) < 6 {
			samples = append(samples, r.Samples...)
		}
		if strings.HasPrefix(s.name, "enum") {
			if !r.EnumComplete || !r.Done {
				enumComplete = false
			}
			exhaustive = r.Exhaustive
		} else {
			requested += cfg.Checks
		}
		if r.Invalid > 0 && (strings.HasPrefix(s.name, "rapid") || strings.HasPrefix(s.name, "enum")) {
			// a generated or enumerated case the interpreter rejects tests nothing: never silent
			undecided = append(undecided, fmt.Sprintf("%s: %d generated cases were rejected as invalid by the check's own interpreter (generator and validator disagree)", s.name, r.Invalid))
		}
		if !r.Done {
			// died mid-run
			if c := openJournalCase(s.journal); c != nil {
				kind, frame := panicSignature(s.stderr)
				cl := "crash"
				if s.timeout {
					cl, kind = "hang", "worker did not finish the case within its deadline"
				}
				fails = append(fails, failure{Case: c, Outcome: outcome{Violation: kind, Clause: cl, Sig: frame}, crash: true, stderr: s.stderr, shard: s.name, Final: true})
			} else {
				undecided = append(undecided, fmt.Sprintf("%s: exit %d, result not final\n%s", s.name, s.exit, tail(s.stderr, 1500)))
			}
			continue
		}
		if len(r.Failures) > 0 {
			// keep the final (minimal) failing case and the first one of any other clause
			seen := map[string]bool{}
			for i := len(r.Failures) - 1; i >= 0; i-- {
				f := r.Failures[i]
				if seen[f.Outcome.Clause] {
					continue
				}
				seen[f.Outcome.Clause] = true
				f.shard = s.name
				f.stderr = s.stderr
				fails = append(fails, f)
			}
		} else if s.exit != 0 {
			undecided = append(undecided, fmt.Sprintf("%s: exit %d without a recorded failure\n%s", s.name, s.exit, tail(s.stderr, 1500)))
		} else if strings.HasPrefix(s.name, "rapid") && r.Executed < cfg.Checks {
			undecided = append(undecided, fmt.Sprintf("%s: executed %d of %d requested cases", s.name, r.Executed, cfg.Checks))
		}
	}

	// confirm / shrink failures
	var violations []violation
	inconclusive := 0
	byClause := map[string]bool{}
	for _, f := range fails {
		key := f.Outcome.Clause
		if f.crash {
			key += "|" + f.Outcome.Sig
		}
		if byClause[key] || len(byClause) >= 6 {
			continue
		}
		byClause[key] = true
		if f.Outcome.Undecided != "" {
			uo := f.Outcome
			uo.Clause = "undecided"
			if matchKnown(known, d.id, &uo) != nil {
				continue
			}
			undecided = append(undecided, fmt.Sprintf("%s: harness could not judge a case: %s\n  case: %s\n  %s", f.shard, f.Outcome.Undecided, tail(string(f.Case), 1500), strings.Join(f.Outcome.History, "\n  ")))
			d.saveInconclusive(f)
			continue
		}
		d.logf("candidate from %s: [%s] %s", f.shard, f.Outcome.Clause, firstLine(f.Outcome.Violation))
		c := f.Case
		o := f.Outcome
		nf, runs, ro, crashed, stderr := d.replayCase(c, cfg.ReplayRepeat, shortTimeout(cfg), "confirm")
		rate := fmt.Sprintf("%d/%d", nf, runs)
		note := ""
		if nf > 0 {
			if ro != nil {
				o = *ro
			}
			if crashed || f.crash {
				c, o = d.shrinkJSON(c, o, cfg, crashed)
				_ = stderr
			}
		} else {
			libCrash := f.crash && f.Outcome.Clause == "crash" && (strings.Contains(f.Outcome.Sig, "github.com/hslam/rpc") || panicInLibrary(f.stderr))
			if (f.Outcome.Timing || f.crash) && !libCrash {
				inconclusive++
				d.logf("not reproduced alone (%s) -> inconclusive", rate)
				d.saveInconclusive(f)
				if f.crash {
					undecided = append(undecided, fmt.Sprintf("%s: worker died but the open case does not reproduce it\n%s", f.shard, tail(f.stderr, 3000)))
				}
				continue
			}
			if libCrash {
				// a panic inside the library killed the worker while it executed this case: the stack is
				// the evidence even though the schedule did not repeat in isolation
				o.History = append(o.History, "worker stderr (tail):")
				o.History = append(o.History, strings.Split(tail(f.stderr, 2500), "\n")...)
			}
			note = "observed once during the run; not reproduced in " + rate + " isolated repetitions (schedule-dependent); the recorded history is the evidence"
		}
		if k := matchKnown(known, d.id, &o); k != nil {
			if !knownHit[k.What] {
				knownHit[k.What] = true
				fmt.Printf("KNOWN-FINDING: property=%s %s\n", d.id, k.What)
			}
			continue
		}
		path := d.writeReplay(c, &o, cfg.ReplayRepeat, rate, note)
		violations = append(violations, violation{path: path, out: o})
	}

	// native fuzz targets (thorough tier only)
	if d.tier == "thorough" && len(cfg.Fuzz) > 0 {
		reps, fv, fu := d.runFuzz(cfg)
		ev.Coverage.Fuzz = reps
		violations = append(violations, fv...)
		undecided = append(undecided, fu...)
	}
	// evidence
	ev.Coverage.DistinctNontrivial = len(hashes)
	ev.Coverage.Samples = samples
	if len(ev.Coverage.Samples) == 0 {
		ev.Coverage.Samples = []json.RawMessage{json.RawMessage(`"no non-trivial case was generated"`)}
	}
	ev.Coverage.Classes = classes
	ev.Coverage.Counters = counters
	ev.Coverage.Shards = len(shards)
	ev.Coverage.RequestedCases = requested
	ev.Coverage.RegressFiles = len(regress)
	ev.Coverage.RegressRuns = regressRuns
	ev.Coverage.Evaluations += regressRuns
	ev.Coverage.InconclusiveTimeouts = inconclusive
	if enumComplete && len(exhaustive) > 0 {
		// exhaustive:true only when the whole run was a complete enumeration
		ev.Coverage.Exhaustive = cfg.Shards == 0
		ev.Coverage.ExhaustiveSubspaces = exhaustive
	}
	ev.Coverage.KnownFindings = len(knownHit)
	ev.Violations = len(violations)
	ev.WallS = time.Since(d.start).Seconds()
	if ev.Level == "" {
		ev.Level = d.spec.Level
		ev.Coverage.Rule = "no shard reported"
	}
	d.writeEvidence(&ev)

	for _, v := range violations {
		fmt.Printf("VIOLATION property=%s replay=%s\n", d.id, v.path)
		fmt.Printf("  [%s] %s\n", v.out.Clause, v.out.Violation)
		for i, h := range v.out.History {
			if i > 60 {
				fmt.Println("  ...")
				break
			}
			fmt.Println("    " + h)
		}
	}
	if len(violations) > 0 {
		return 1
	}
	if len(undecided) > 0 {
		for _, u := range undecided {
			fmt.Fprintln(os.Stderr, "UNDECIDED:", u)
		}
		return 2
	}
	fmt.Printf("OK property=%s tier=%s seed=%d evaluations=%d distinct_nontrivial=%d wall=%.1fs\n", d.id, d.tier, d.seed,
		ev.Coverage.Evaluations, ev.Coverage.DistinctNontrivial, ev.WallS)
	return 0
}

func firstLine(s string) string {
	if i := strings.Index(s, "\n"); i >= 0 {
		return s[:i]
	}
	return s
}

type evidence struct {
	PropertyID  string   `json:"property_id"`
	Tier        string   `json:"tier"`
	Seed        int64    `json:"seed"`
	Level       string   `json:"level"`
	Coverage    coverage `json:"coverage"`
	Assumptions []string `json:"assumptions"`
	WallS       float64  `json:"wall_s"`
	Violations  int      `json:"violations"`
}

type coverage struct {
	Evaluations          int               `json:"evaluations"`
	DistinctNontrivial   int               `json:"distinct_nontrivial"`
	Rule                 string            `json:"rule"`
	Samples              []json.RawMessage `json:"samples"`
	Classes              map[string]int    `json:"classes"`
	Counters             map[string]int    `json:"counters,omitempty"`
	Shards               int               `json:"shards"`
	RequestedCases       int               `json:"requested_generated_cases"`
	RegressFiles         int               `json:"regression_files"`
	RegressRuns          int               `json:"regression_runs"`
	InconclusiveTimeouts int               `json:"inconclusive_timeouts"`
	KnownFindings        int               `json:"known_findings_reported"`
	Exhaustive           bool              `json:"exhaustive,omitempty"`
	ExhaustiveSubspaces  []string          `json:"exhaustive_subspaces,omitempty"`
	Fuzz                 []fuzzReport      `json:"native_fuzz,omitempty"`
}

type fuzzReport struct {
	Target   string `json:"target"`
	Seconds  int    `json:"seconds"`
	Execs    int    `json:"execs"`
	Crashers int    `json:"crashers"`
}

func (d *driver) writeEvidence(ev *evidence) {
	dir := filepath.Join(verifDir, "evidence")
	os.MkdirAll(dir, 0o755)
	b, _ := json.MarshalIndent(ev, "", " ")
	os.WriteFile(filepath.Join(dir, d.id+".json"), append(b, '\n'), 0o644)
}
